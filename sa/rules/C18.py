"""C18 - recorded symbol tables match the ELF symbol table (selection / conversion tables, not the runtime values).

What a symbol of the binary becomes in <elf-function-symbols> / <elf-variable-symbols> is decided by a handful of
small tables and predicates; each is decided here over its whole (finite) domain:

R-SYMCONV   stt_/stb_/stv_to_elf_symbol_* composed with the writer's write_elf_symbol_{type,binding,visibility}:
            every ELF constant (named by its <elf.h> macro) reaches the ABIXML word of the same name
            (STB_WEAK -> 'weak-binding'), the conversions are injective, and every case returns.
R-SYMPUBLIC elf_symbol::is_public() over defined x binding x visibility: true exactly for defined, GLOBAL or WEAK
            (GNU_UNIQUE, a GNU flavour of global, is left to the code), DEFAULT or PROTECTED.
R-SYMKIND   the type filter of symtab::load_ composed with stt_to_elf_symbol_type and elf_symbol::is_function /
            is_variable: every admitted ELF type converts (no abort) and is a function or a variable, never both;
            FUNC, GNU_IFUNC, OBJECT and TLS are admitted, SECTION and FILE are not.
R-SYMFILTER the filter the corpus builds for its function (variable) symbol table - make_filter() followed by the
            setters called in corpus::priv::get_sorted_{fun,var}_symbols - evaluated by symtab_filter::matches over
            all predicate combinations: matches <=> is_public && is_function (is_variable).
R-SYMSECT   write_corpus emits get_sorted_fun_symbols() inside <elf-function-symbols> and get_sorted_var_symbols()
            inside <elf-variable-symbols>.
R-SYMSEL    find_symbol_table_section over e_type x (dynsym present) x (symtab present): .symtab first for
            relocatable objects and executables, .dynsym first otherwise, the other one as the fallback.
R-SYMALIAS  symtab::setup_symbol_lookup_tables: when the address is already taken (emplace(...).second is false)
            the new symbol is added as an alias of the symbol found there.
R-SYMSRC    the symbol table of a binary is read from that binary: every symtab_reader::symtab::load(Elf*, ..) of the DWARF
            reader is handed the ELF handle of the file under analysis (elf_handle()), never that of a separate debug-info
            file - whose .symtab would make a binary that has lost its own (truncated, stripped of its section headers)
            look intact.
R-VERDEFAULT get_version_definition_for_versym: the default-version mark is the negation of the hidden bit
            (0x8000) of the versym entry.
"""
from engine.cfg import strip_casts
from engine.facts import walk, call_args, member_call_object, expr_str
from engine.compdb import AnalysisBroken
from rules import vocab_rules as vr
from rules.world import World, ANY, truth

UNITS = ["src/abg-elf-helpers.cc", "src/abg-ir.cc", "src/abg-symtab-reader.cc", "src/abg-corpus.cc", "src/abg-writer.cc"]

CONV = [("type", "stt_to_elf_symbol_type", "write_elf_symbol_type", "STT_", "-type"),
        ("binding", "stb_to_elf_symbol_binding", "write_elf_symbol_binding", "STB_", "-binding"),
        ("visibility", "stv_to_elf_symbol_visibility", "write_elf_symbol_visibility", "STV_", "-visibility")]


def norm(s):
    return s.lower().replace("_", "").replace("-", "")


def fn1(P, q):
    fs = [f for f in P.fn(q) if not f.dep and f.cfg() is not None]
    if len(fs) != 1:
        raise AnalysisBroken("anchor vanished: %s (found %d definitions)" % (q, len(fs)))
    return fs[0]


def conv_table(f):
    """[(macro, ELF value, enumerator name, enumerator value | None)] of a `switch (x) { case STx_Y: return E; }`"""
    out = []
    for sw in f.nodes():
        if sw["k"] != "SwitchStmt" or sw["c"][1] is None:
            continue
        items = [x for x in sw["c"][1].get("c", []) if x is not None]
        i = 0
        while i < len(items):
            it = items[i]
            if it["k"] != "CaseStmt":
                i += 1
                continue
            labels, node = [], it
            while node is not None and node["k"] in ("CaseStmt", "DefaultStmt"):
                if node["k"] == "CaseStmt":
                    macro = None
                    for x in walk(node["c"][0]):
                        if x.get("m"):
                            macro = x["m"]
                            break
                    labels.append((macro, node.get("v")))
                node = node["c"][-1]
            stmts = [node]
            j = i + 1
            while j < len(items) and items[j]["k"] not in ("CaseStmt", "DefaultStmt"):
                stmts.append(items[j])
                j += 1
            ret = None
            for s in stmts:
                for x in walk(s):
                    if x["k"] == "ReturnStmt" and x.get("c") and x["c"][0] is not None:
                        r = strip_casts(x["c"][0])
                        if r is not None and r["k"] == "DeclRefExpr" and r.get("v") is not None:
                            ret = ((f.decl(r) or {}).get("n"), r["v"])
                        break
                if ret:
                    break
            for m, v in labels:
                out.append((m, v, ret[0] if ret else None, ret[1] if ret else None))
            i = j
    return out


def enum_pred_table(f, getter):
    """value set for which a predicate `return get_x() == A || get_x() == B` is true, over the enumerators it names
    plus one fresh value"""
    named = sorted({x["v"] for x in f.nodes() if x["k"] == "DeclRefExpr" and x.get("v") is not None})
    return named


def run(ctx):
    ctx.clause = ("which ELF symbols become entries of the function / variable symbol tables, and with which type, "
                  "binding, visibility, default-version mark and alias links, is decided by tables and predicates that "
                  "agree with the ELF constants over their whole domain")
    ctx.rules = ["R-SYMCONV", "R-SYMPUBLIC", "R-SYMKIND", "R-SYMFILTER", "R-SYMSECT", "R-SYMSEL", "R-SYMALIAS", "R-VERDEFAULT", "R-SYMSRC", "R-INVBREAK"]
    P = ctx.program(UNITS)
    stt = check_conv(ctx, P)
    check_public(ctx, P)
    check_kind(ctx, P, stt)
    check_filter(ctx, P)
    check_sect(ctx, P)
    check_sel(ctx, P)
    check_alias(ctx, P)
    check_alias_domain(ctx, P)
    check_verdefault(ctx, P)
    check_symsrc(ctx)
    from rules import invbreak_rule
    k = invbreak_rule.check(ctx, P, [f for f in P.all_funcs() if f.relfile.endswith(("src/abg-elf-helpers.cc", "src/abg-symtab-reader.cc"))])
    ctx.floor("R-INVBREAK", "search loops (`if (..) break`) of the ELF helpers and the symtab reader", k, 5)
    ctx.assume("libelf hands back the fields of the symbol table entries faithfully; names, sizes, addresses and the "
               "version strings are runtime values read from the binary and are not decided here (the oracle of the "
               "property is readelf)")
    ctx.assume("STB_GNU_UNIQUE, which the property does not mention, may be public or not")


# ------------------------------------------------------------------------------------------------ R-SYMCONV
def check_conv(ctx, P):
    n = 0
    stt = {}
    for what, conv, wr, prefix, suffix in CONV:
        fc = fn1(P, "abigail::elf_helpers::" + conv)
        ctx.analysed(fc)
        tab = conv_table(fc)
        if not tab:
            raise AnalysisBroken("anchor vanished: %s is no longer a switch over ELF constants" % conv)
        wfs = [g for g in P.fn("abigail::xml_writer::" + wr) if not g.dep]
        if len(wfs) != 1:
            raise AnalysisBroken("anchor vanished: abigail::xml_writer::%s" % wr)
        ctx.analysed(wfs[0])
        wt = vr.switch_tables(wfs[0])
        if len(wt) != 1:
            raise AnalysisBroken("anchor vanished: %s is no longer one switch over the enumeration" % wr)
        words = {v: lit for v, lit in wt[0][1] if v != "default"}
        seen = {}
        for macro, v, en, ev in tab:
            n += 1
            label = macro or "case %s" % v
            if en is None:
                ctx.ob("R-SYMCONV", "%s: %s returns an enumerator" % (conv, label), False, fc.loc(),
                       "the case does not return an enumerator: the ELF value falls into the next case or off the switch")
                continue
            if what == "type":
                stt[v] = (macro, en, ev)
            word = words.get(ev)
            cands = set()
            if word:
                cands = {norm(word), norm(word[:-len(suffix)] if word.endswith(suffix) else word)}
            ok = bool(macro) and macro.startswith(prefix) and norm(macro[len(prefix):]) in cands
            ctx.ob("R-SYMCONV", "%s: %s is recorded under its own name" % (conv, label), ok, fc.loc(),
                   "%s -> %s -> '%s'" % (label, en, word) if ok else
                   "%s -> %s -> '%s': the ELF %s of the symbol is recorded as another one" % (label, en, word, what))
            dup = seen.get(ev)
            ctx.ob("R-SYMCONV", "%s: %s has an enumerator of its own" % (conv, label), dup is None, fc.loc(),
                   "injective" if dup is None else "%s and %s both become %s" % (dup, label, en))
            seen.setdefault(ev, label)
    ctx.floor("R-SYMCONV", "ELF constants converted", n, 16)
    return stt


# ------------------------------------------------------------------------------------------------ R-SYMPUBLIC
def sym_pred(P, name):
    return fn1(P, "abigail::ir::elf_symbol::" + name)


def enum_values(P, q):
    e = P.enums.get(q)
    if not e:
        raise AnalysisBroken("anchor vanished: enumeration %s" % q)
    return {c["n"]: c["v"] for c in e["consts"]}


def eval_sym_pred(f, world):
    """truth values of a predicate of elf_symbol in a world {getter name: value}"""
    def atom(e):
        if e["k"] == "CXXMemberCallExpr":
            n = (f.decl(e) or {}).get("n")
            if n in world:
                return [world[n]]
            return [ANY]
        return None
    return truth(World(f, atom).returns())


def check_public(ctx, P):
    f = sym_pred(P, "is_public")
    ctx.analysed(f)
    B = enum_values(P, "abigail::ir::elf_symbol::binding")
    V = enum_values(P, "abigail::ir::elf_symbol::visibility")
    n = 0
    for d in (True, False):
        for bn, bv in sorted(B.items()):
            for vn, vv in sorted(V.items()):
                if bn == "GNU_UNIQUE_BINDING":
                    continue
                n += 1
                want = d and bn in ("GLOBAL_BINDING", "WEAK_BINDING") and vn in ("DEFAULT_VISIBILITY", "PROTECTED_VISIBILITY")
                got = eval_sym_pred(f, {"is_defined": d, "get_binding": bv, "get_visibility": vv})
                ok = got == frozenset([want])
                ctx.ob("R-SYMPUBLIC", "is_public(%s, %s, %s) is %s" % ("defined" if d else "undefined", bn, vn, str(want).lower()),
                       ok, f.loc(), "decided by the predicate" if ok else
                       "the predicate answers %s: the symbol tables %s such symbols" % (
                           "/".join(str(x).lower() for x in sorted(got)), "lose" if want else "gain"))
    ctx.floor("R-SYMPUBLIC", "worlds of is_public", n, 24)


# ------------------------------------------------------------------------------------------------ R-SYMKIND
REQUIRED = ("STT_FUNC", "STT_GNU_IFUNC", "STT_OBJECT", "STT_TLS")
FORBIDDEN = ("STT_SECTION", "STT_FILE")


def check_kind(ctx, P, stt):
    fs = [f for f in P.fn("abigail::symtab_reader::symtab::load_") if not f.dep and f.cfg() is not None and
          any((f.decl(x) or {}).get("n") == "gelf_getsym" for x in f.nodes() if x["k"] == "CallExpr")]
    if len(fs) != 1:
        raise AnalysisBroken("anchor vanished: symtab::load_(Elf*, ...)")
    f = fs[0]
    ctx.analysed(f)
    tvars = set()
    for n in f.nodes():
        if n["k"] == "VarDecl" and n.get("c") and n["c"][0] is not None and \
                any(x.get("m") == "GELF_ST_TYPE" for x in walk(n["c"][0])):
            tvars.add(n.get("d"))

    def mentions_type(e):
        return any((x["k"] == "DeclRefExpr" and x.get("d") in tvars) or x.get("m") == "GELF_ST_TYPE" for x in walk(e))
    gates = []
    for n in f.nodes():
        if n["k"] == "IfStmt" and n["c"][0] is not None and mentions_type(n["c"][0]):
            then = n["c"][1]
            if then is not None and any(x["k"] == "ContinueStmt" for x in walk(then)):
                gates.append(n)
    if not gates:
        raise AnalysisBroken("anchor vanished: symtab::load_ no longer filters the symbols on GELF_ST_TYPE with `continue`")
    isf, isv = sym_pred(P, "is_function"), sym_pred(P, "is_variable")
    ctx.analysed(isf)
    ctx.analysed(isv)
    n_adm = 0
    for v in sorted(stt):
        macro, en, ev = stt[v]

        def atom(e, v=v):
            if (e["k"] == "DeclRefExpr" and e.get("d") in tvars) or (e.get("m") == "GELF_ST_TYPE" and e["k"] != "IntegerLiteral"):
                return [v]
            return None
        W = World(f, atom)
        admitted = all(False in truth(W.ev(g["c"][0])) for g in gates)
        if macro in REQUIRED:
            ctx.ob("R-SYMKIND", "load_ keeps %s symbols" % macro, admitted, f.loc(gates[0]),
                   "kept" if admitted else "the type filter drops every %s symbol" % macro)
        if macro in FORBIDDEN:
            ctx.ob("R-SYMKIND", "load_ drops %s symbols" % macro, not admitted, f.loc(gates[0]),
                   "dropped" if not admitted else "%s entries are loaded as symbols of the binary" % macro)
        if not admitted:
            continue
        n_adm += 1
        a = eval_sym_pred(isf, {"get_type": ev})
        b = eval_sym_pred(isv, {"get_type": ev})
        ok = len(a) == 1 and len(b) == 1 and (True in a) != (True in b)
        ctx.ob("R-SYMKIND", "%s is either a function or a variable symbol" % macro, ok, f.loc(gates[0]),
               "%s: is_function=%s is_variable=%s" % (en, sorted(a), sorted(b)) if ok else
               "%s is loaded (as %s) but is_function=%s is_variable=%s: the symbol lands in %s symbol table" % (
                   macro, en, sorted(a), sorted(b), "neither" if True not in a and True not in b else "both"))
    # a loaded ELF type must convert: the conversion aborts on what it does not know
    for v in range(0, 16):
        if v in stt:
            continue

        def atom(e, v=v):
            if (e["k"] == "DeclRefExpr" and e.get("d") in tvars) or (e.get("m") == "GELF_ST_TYPE" and e["k"] != "IntegerLiteral"):
                return [v]
            return None
        W = World(f, atom)
        admitted = all(False in truth(W.ev(g["c"][0])) for g in gates)
        ctx.ob("R-SYMKIND", "ELF symbol type %d (no conversion) is not loaded" % v, not admitted, f.loc(gates[0]),
               "filtered before stt_to_elf_symbol_type" if not admitted else
               "the filter lets the type through and stt_to_elf_symbol_type aborts on it")
    ctx.floor("R-SYMKIND", "admitted ELF symbol types", n_adm, 4)


# ------------------------------------------------------------------------------------------------ R-SYMFILTER
def setter_member(g):
    """name of the member a set_x(bool) setter stores its parameter into"""
    if not g.r["params"]:
        return None
    p = g.r["params"][0]
    for n in g.nodes():
        if n["k"] in ("CXXOperatorCallExpr", "BinaryOperator") and n.get("op") == "=":
            a = call_args(n) if n["k"] == "CXXOperatorCallExpr" else n["c"]
            l, r = strip_casts(a[0]), strip_casts(a[1])
            while r is not None and r["k"] in ("CXXConstructExpr", "MaterializeTemporaryExpr", "CXXBindTemporaryExpr") and r.get("c"):
                r = strip_casts(r["c"][0])
            if l is not None and l["k"] == "MemberExpr" and r is not None and r["k"] == "DeclRefExpr" and r.get("d") == p:
                return (g.decl(l) or {}).get("n")
    return None


def filter_calls(P, f, var=None):
    """[(member, value | ANY, conditional?)] of the setter calls applied to the filter object in f, in source order"""
    out = []
    for n in f.nodes():
        if n["k"] != "CXXMemberCallExpr":
            continue
        d = f.decl(n) or {}
        if not d.get("n", "").startswith("set_"):
            continue
        o = strip_casts(member_call_object(n))
        if o is None or o["k"] != "DeclRefExpr" or (var is not None and o.get("d") != var):
            continue
        g = P.funcs.get(d.get("u"))
        m = setter_member(g) if g is not None else None
        if m is None:
            raise AnalysisBroken("cannot resolve the member written by symtab_filter::%s" % d.get("n"))
        a = call_args(n)
        v = strip_casts(a[0]) if a else None
        val = ANY
        if v is not None and v.get("v") is not None and v["k"] in ("CXXBoolLiteralExpr", "CXXDefaultArgExpr"):
            val = bool(v["v"])
        # conditional relative to the declaration of the filter object: a control statement that encloses the call
        # but not the declaration
        ctl = {x["i"] for x in f.ancestors(n) if x["k"] in ("IfStmt", "ConditionalOperator", "ForStmt", "WhileStmt", "SwitchStmt")}
        dn = [x for x in f.nodes() if x["k"] == "VarDecl" and x.get("d") == o.get("d")]
        if dn:
            ctl -= {x["i"] for x in f.ancestors(dn[0])}
        out.append((m, val, bool(ctl)))
    return out


def check_filter(ctx, P):
    mk = fn1(P, "abigail::symtab_reader::symtab::make_filter")
    mt = fn1(P, "abigail::symtab_reader::symtab_filter::matches")
    ctx.analysed(mk)
    ctx.analysed(mt)
    base = filter_calls(P, mk)
    preds = sorted({(mt.decl(x) or {}).get("n") for x in mt.nodes() if x["k"] == "CXXMemberCallExpr" and
                    (mt.decl(x) or {}).get("n", "").startswith("is_")})
    members = sorted({(mt.decl(x) or {}).get("n") for x in mt.nodes() if x["k"] == "MemberExpr" and
                      (mt.decl(x) or {}).get("n", "").endswith("_") and x["c"] and x["c"][0] is not None and x["c"][0]["k"] == "CXXThisExpr"})
    if not {"is_public", "is_function", "is_variable"} <= set(preds):
        raise AnalysisBroken("anchor vanished: symtab_filter::matches no longer consults is_public/is_function/is_variable")
    n = 0
    for getter, kind in (("get_sorted_fun_symbols", "is_function"), ("get_sorted_var_symbols", "is_variable")):
        g = fn1(P, "abigail::ir::corpus::priv::" + getter)
        ctx.analysed(g)
        fv = [x.get("d") for x in g.nodes() if x["k"] == "VarDecl" and x.get("c") and x["c"][0] is not None and
              any(y["k"] == "CXXMemberCallExpr" and (g.decl(y) or {}).get("n") == "make_filter" for y in walk(x["c"][0]))]
        if len(fv) != 1:
            raise AnalysisBroken("anchor vanished: %s no longer starts from symtab::make_filter()" % getter)
        state = {}
        for m, val, cond in base + filter_calls(P, g, fv[0]):
            if cond:
                # a conditional setter (kernel binaries): explore the world where it did not run; the kernel clause is C28's
                continue
            state[m] = val
        # the filter object must be the one handed to symtab::begin()
        fed = any(x["k"] == "CXXMemberCallExpr" and (g.decl(x) or {}).get("n") == "begin" and
                  any(y["k"] == "DeclRefExpr" and y.get("d") == fv[0] for a in call_args(x) for y in walk(a)) for x in g.nodes())
        ctx.ob("R-SYMFILTER", "%s iterates the symtab with the filter it configured" % getter, fed, g.loc(),
               "symtab_->begin(filter)" if fed else "the configured filter is not the one passed to symtab::begin()")
        import itertools
        for combo in itertools.product((True, False), repeat=len(preds)):
            w = dict(zip(preds, combo))
            n += 1

            def atom(e):
                k = e["k"]
                if k == "CXXMemberCallExpr":
                    nm = (mt.decl(e) or {}).get("n")
                    if nm in w:
                        return [w[nm]]
                    if nm and nm.startswith("operator bool"):
                        o = strip_casts(member_call_object(e))
                        if o is not None and o["k"] == "MemberExpr":
                            return [state.get((mt.decl(o) or {}).get("n")) is not None]
                    return [ANY]
                if k == "CXXOperatorCallExpr" and e.get("op") == "*":
                    o = strip_casts(call_args(e)[0])
                    if o is not None and o["k"] == "MemberExpr":
                        v = state.get((mt.decl(o) or {}).get("n"))
                        return [ANY if v is None else v]
                return None
            got = truth(World(mt, atom).returns())
            want = w["is_public"] and w[kind]
            ok = got == frozenset([want])
            if not ok or combo == tuple([True] * len(preds)):
                ctx.ob("R-SYMFILTER", "%s: a symbol with %s is %s" % (
                    getter, ", ".join("%s=%s" % (p, str(w[p]).lower()) for p in preds), "listed" if want else "not listed"),
                    ok, g.loc(), "filter %s" % state if ok else
                    "with the filter %s symtab_filter::matches answers %s" % (
                        {k: v for k, v in state.items()}, "/".join(str(x).lower() for x in sorted(got))))
        ctx.ob("R-SYMFILTER", "%s = public && %s over all %d predicate combinations" % (getter, kind, 2 ** len(preds)), True,
               g.loc(), "filter members %s" % ", ".join("%s=%s" % kv for kv in sorted(state.items())))
    ctx.floor("R-SYMFILTER", "(table, predicate world) pairs", n, 32)


# ------------------------------------------------------------------------------------------------ R-SYMSECT
def check_sect(ctx, P):
    fs = [f for f in P.all_funcs() if not f.dep and f.q.startswith("abigail::xml_writer::") and
          any(x["k"] == "StringLiteral" and "<elf-function-symbols>" in (x.get("s") or "") for x in f.nodes())]
    if len(fs) != 1:
        raise AnalysisBroken("anchor vanished: the writer function that opens <elf-function-symbols>")
    f = fs[0]
    ctx.analysed(f)
    n = 0
    for tag, getter in (("elf-function-symbols", "get_sorted_fun_symbols"), ("elf-variable-symbols", "get_sorted_var_symbols")):
        for lit in f.nodes():
            if lit["k"] == "StringLiteral" and ("<%s>" % tag) in (lit.get("s") or ""):
                blk = None
                for a in f.ancestors(lit):
                    if a["k"] == "CompoundStmt":
                        blk = a
                        break
                calls = [x for x in walk(blk) if x["k"] == "CallExpr" and (f.decl(x) or {}).get("n") == "write_elf_symbols_table"]
                srcs = sorted({(f.decl(y) or {}).get("n") for c in calls for y in walk(call_args(c)[0])
                               if y["k"] == "CXXMemberCallExpr" and (f.decl(y) or {}).get("n", "").startswith("get_sorted_")})
                n += 1
                ok = srcs == [getter]
                ctx.ob("R-SYMSECT", "<%s> holds %s()" % (tag, getter), ok, f.loc(lit),
                       "write_elf_symbols_table(%s())" % getter if ok else "the section is filled from %s" % (srcs or "nothing"))
    ctx.floor("R-SYMSECT", "symbol sections of the writer", n, 2)


# ------------------------------------------------------------------------------------------------ R-SYMSEL
def check_sel(ctx, P):
    f = fn1(P, "abigail::elf_helpers::find_symbol_table_section")
    ctx.analysed(f)
    loc = {}
    for n in f.nodes():
        if n["k"] == "VarDecl" and n.get("c") and n["c"][0] is not None:
            for x in walk(n["c"][0]):
                if x["k"] == "CallExpr" and (f.decl(x) or {}).get("n") in ("find_dynsym_section", "find_symtab_section"):
                    loc[n.get("d")] = "dynsym" if (f.decl(x) or {}).get("n") == "find_dynsym_section" else "symtab"
    if sorted(loc.values()) != ["dynsym", "symtab"]:
        raise AnalysisBroken("anchor vanished: find_symbol_table_section no longer looks up .dynsym and .symtab")
    ET = {}
    for x in f.nodes():
        if x["k"] == "IntegerLiteral" and (x.get("m") or "").startswith("ET_"):
            ET[x["m"]] = x["v"]
    ET.setdefault("ET_REL", 1)
    ET.setdefault("ET_EXEC", 2)
    ET.setdefault("ET_DYN", 3)
    n = 0
    for en, ev in sorted(ET.items()):
        for has_d in (True, False):
            for has_s in (True, False):
                n += 1
                present = {"dynsym": has_d, "symtab": has_s}

                def atom(e):
                    if e["k"] == "DeclRefExpr" and e.get("d") in loc:
                        return [loc[e["d"]] if present[loc[e["d"]]] else None]
                    if e["k"] == "MemberExpr" and (f.decl(e) or {}).get("n") == "e_type":
                        return [ev]
                    return None
                got = World(f, atom).returns()
                first, second = ("symtab", "dynsym") if en in ("ET_REL", "ET_EXEC") else ("dynsym", "symtab")
                want = first if present[first] else (second if present[second] else None)
                ok = got == {want}
                ctx.ob("R-SYMSEL", "%s, .dynsym %s, .symtab %s -> %s" % (en, "present" if has_d else "absent",
                                                                        "present" if has_s else "absent", want or "no table"),
                       ok, f.loc(), "decided" if ok else "find_symbol_table_section returns %s" % sorted(str(x) for x in got))
    ctx.floor("R-SYMSEL", "worlds of find_symbol_table_section", n, 12)


# ------------------------------------------------------------------------------------------------ R-SYMALIAS
def check_alias(ctx, P):
    f = fn1(P, "abigail::symtab_reader::symtab::setup_symbol_lookup_tables")
    ctx.analysed(f)
    res = [n for n in f.nodes() if n["k"] == "VarDecl" and n.get("c") and n["c"][0] is not None and
           any(x["k"] == "CXXMemberCallExpr" and (f.decl(x) or {}).get("n") in ("emplace", "insert") and
               any((f.decl(y) or {}).get("n") == "addr_symbol_map_" for y in walk(member_call_object(x)) if y["k"] == "MemberExpr")
               for x in walk(n["c"][0]))]
    if len(res) != 1:
        raise AnalysisBroken("anchor vanished: setup_symbol_lookup_tables no longer keeps the result of addr_symbol_map_.emplace()")
    rv = res[0].get("d")
    emp = [x for x in walk(res[0]["c"][0]) if x["k"] == "CXXMemberCallExpr" and (f.decl(x) or {}).get("n") in ("emplace", "insert")][0]
    new_syms = {y.get("d") for a in call_args(emp)[1:] for y in walk(a) if y["k"] == "DeclRefExpr" and y.get("d") in f.r["params"]}
    calls = [x for x in f.nodes() if x["k"] == "CXXMemberCallExpr" and (f.decl(x) or {}).get("n") == "add_alias"]
    derived = set()          # locals initialised from `result.first` (the entry already present at that address)

    def found_there(e):
        if e is None:
            return False
        via = any(y["k"] == "DeclRefExpr" and y.get("d") == rv for y in walk(e)) and \
            any(y["k"] == "MemberExpr" and (f.decl(y) or {}).get("n") == "first" for y in walk(e))
        return via or any(y["k"] == "DeclRefExpr" and y.get("d") in derived for y in walk(e))
    changed = True
    while changed:
        changed = False
        for n in f.nodes():
            if n["k"] == "VarDecl" and n.get("d") not in derived and n.get("c") and n["c"][0] is not None and found_there(n["c"][0]):
                derived.add(n.get("d"))
                changed = True
    ok_call = None
    why = "no call of add_alias"
    for c in calls:
        arg_ok = any(y["k"] == "DeclRefExpr" and y.get("d") in new_syms for y in walk(call_args(c)[0]))
        obj_ok = found_there(member_call_object(c))
        guard_ok = False
        gtxt = "no condition"
        for a in f.ancestors(c):
            if a["k"] == "IfStmt" and a["c"][0] is not None and any(
                    y["k"] == "MemberExpr" and (f.decl(y) or {}).get("n") == "second" for y in walk(a["c"][0])):
                gtxt = expr_str(f, a["c"][0])

                def atom(e):
                    if e["k"] == "MemberExpr" and (f.decl(e) or {}).get("n") == "second":
                        return [False]                      # the address was already taken
                    return None
                in_then = any(y is c for y in walk(a["c"][1])) if a["c"][1] is not None else False
                v = truth(World(f, atom).ev(a["c"][0]))
                guard_ok = v == frozenset([in_then])
        if arg_ok and obj_ok and guard_ok:
            ok_call = c
        else:
            why = "`%s` under `%s`: %s" % (expr_str(f, c)[:70], gtxt, ", ".join(
                t for t, o in (("the argument is not the new symbol", arg_ok), ("the receiver is not the symbol found at that address", obj_ok),
                               ("not on the branch where the address was already taken", guard_ok)) if not o))
    ctx.ob("R-SYMALIAS", "a second symbol at an address becomes an alias of the first", ok_call is not None, f.loc(ok_call) if ok_call else f.loc(),
           "`%s`" % expr_str(f, ok_call)[:80] if ok_call else why)


def check_alias_domain(ctx, P):
    """R-SYMALIAS (domain): the address map is keyed by st_value, which is an address only for defined, non-common
    symbols (for a symbol in SHN_COMMON st_value holds the alignment, ELF gABI).  In symtab::load_, in the world where the
    symbol is a common symbol, setup_symbol_lookup_tables() is unreachable; for an undefined symbol either the call or,
    inside the callee, the insertion into addr_symbol_map_ is unreachable."""
    fs = [f for f in P.fn("abigail::symtab_reader::symtab::load_") if not f.dep and f.cfg() is not None and
          any((f.decl(x) or {}).get("n") == "gelf_getsym" for x in f.nodes() if x["k"] == "CallExpr")]
    if len(fs) != 1:
        raise AnalysisBroken("anchor vanished: symtab::load_(Elf*, ...)")
    f = fs[0]
    g = fn1(P, "abigail::symtab_reader::symtab::setup_symbol_lookup_tables")
    calls = [x for x in f.nodes() if x["k"] in ("CallExpr", "CXXMemberCallExpr") and (f.decl(x) or {}).get("u") == g.u]
    if not calls:
        raise AnalysisBroken("anchor vanished: symtab::load_ no longer calls setup_symbol_lookup_tables")

    def reach(fn, world):
        def atom(e):
            if e["k"] == "CXXMemberCallExpr":
                n = (fn.decl(e) or {}).get("n")
                if n in world:
                    return [world[n]]
            return None
        W = World(fn, atom)
        seen, _ = W.blocks()
        return {e["i"] for b in seen for e in fn.cfg().blocks[b].elems}
    r = reach(f, {"is_common_symbol": True, "is_defined": True})
    ok = not any(c["i"] in r for c in calls)
    ctx.ob("R-SYMALIAS", "a common symbol (st_value = alignment) never enters the address map", ok, f.loc(calls[0]),
           "setup_symbol_lookup_tables() is unreachable when is_common_symbol()" if ok else
           "setup_symbol_lookup_tables() is reached for a symbol in SHN_COMMON: its st_value is an alignment, so unrelated common "
           "symbols of equal alignment are recorded as aliases of each other")
    r = reach(f, {"is_common_symbol": False, "is_defined": False})
    called = any(c["i"] in r for c in calls)
    emp = [x for x in g.nodes() if x["k"] == "CXXMemberCallExpr" and (g.decl(x) or {}).get("n") in ("emplace", "insert") and
           any((g.decl(y) or {}).get("n") == "addr_symbol_map_" for y in walk(member_call_object(x)) if y["k"] == "MemberExpr")]
    rg = reach(g, {"is_defined": False})
    ok = (not called) or not any(x["i"] in rg for x in emp)
    ctx.ob("R-SYMALIAS", "an undefined symbol never enters the address map", ok, f.loc(calls[0]),
           "guarded in the caller or in the callee" if ok else
           "an undefined symbol (st_value 0) is inserted into addr_symbol_map_: all undefined symbols become aliases of each other")


# ------------------------------------------------------------------------------------------------ R-VERDEFAULT
def check_verdefault(ctx, P):
    f = fn1(P, "abigail::elf_helpers::get_version_definition_for_versym")
    ctx.analysed(f)
    n = 0
    for hidden in (True, False):
        def atom(e):
            if e["k"] == "BinaryOperator" and e.get("op") == "&":
                lits = [strip_casts(x) for x in e["c"]]
                for x in lits:
                    if x is not None and x["k"] == "IntegerLiteral" and x.get("v") == 0x8000:
                        return [0x8000 if hidden else 0]
            return None
        W = World(f, atom)
        vals = set()
        for e in W.elems():
            for x in walk(e):
                if x["k"] == "CXXMemberCallExpr" and (f.decl(x) or {}).get("n") == "is_default" and call_args(x):
                    vals |= set(truth(W.ev(call_args(x)[0])))
        n += 1
        ok = vals == {False} or (hidden and not vals) if hidden else vals == {True}
        ctx.ob("R-VERDEFAULT", "a version definition with the hidden bit %s is %s" % (
            "set" if hidden else "clear", "not the default version" if hidden else "the default version"), ok, f.loc(),
            "is_default(%s)" % "/".join(str(v).lower() for v in sorted(vals)) if ok else
            "on the paths of that case the version is marked is_default(%s)" % ("/".join(str(v).lower() for v in sorted(vals)) or "nothing"))
    ctx.floor("R-VERDEFAULT", "hidden-bit worlds", n, 2)



def check_symsrc(ctx, rule="R-SYMSRC"):
    P = ctx.program(["src/abg-dwarf-reader.cc"])
    n = 0
    for f in sorted(P.all_funcs(), key=lambda x: (x.file, x.l0, x.sig)):
        if f.dep or not f.q.startswith("abigail::dwarf_reader"):
            continue
        for x in f.nodes():
            if x["k"] == "CallExpr" and (f.decl(x) or {}).get("n") == "load" and "symtab" in ((f.decl(x) or {}).get("q") or (f.decl(x) or {}).get("cls") or ""):
                a = call_args(x)
                if not a:
                    continue
                t = f.type(strip_casts(a[0])) or {}
                if "Elf" not in (t.get("c") or t.get("s") or ""):
                    continue                                   # the overload that takes symbol maps
                n += 1
                ctx.analysed(f)
                src = a[0]
                a0 = strip_casts(src)
                if a0 is not None and a0["k"] == "DeclRefExpr":
                    # a local that holds the handle: every definition of it
                    defs = [v["c"][0] for v in f.nodes() if v["k"] == "VarDecl" and v.get("d") == a0.get("d") and v.get("c") and v["c"][0] is not None]
                    defs += [v["c"][1] for v in f.nodes() if v["k"] == "BinaryOperator" and v.get("op") == "=" and
                             strip_casts(v["c"][0]) is not None and strip_casts(v["c"][0])["k"] == "DeclRefExpr" and
                             strip_casts(v["c"][0]).get("d") == a0.get("d")]
                    srcs = sorted({(f.decl(y) or {}).get("n") for dd in defs for y in walk(dd) if y["k"] in ("CXXMemberCallExpr", "CallExpr")}) if defs else []
                else:
                    srcs = sorted({(f.decl(y) or {}).get("n") for y in walk(src) if y["k"] in ("CXXMemberCallExpr", "CallExpr")})
                ok = srcs == ["elf_handle"]
                k = sum(1 for o in ctx.obligations if o["rule"] == rule)
                from rules.null_rules import short
                ctx.ob(rule, "%s: symtab::load #%d reads the binary's own symbol table" % (short(f), k + 1), ok, f.loc(x),
                       "symtab::load(elf_handle(), ..)" if ok else
                       "symtab::load(%s, ..): the symbols come from another ELF file than the one under analysis - a binary whose own "
                       "symbol table cannot be read is reported as if it were intact" % expr_str(f, a[0])[:40])
    ctx.floor(rule, "symtab::load(Elf*) calls in the DWARF reader", n, 1)
