"""C42 - interned strings: identity <=> equal contents (within one pool): R-INTERN.

Type-level clause (compile-fail witnesses): no code outside interned_string_pool can build an
interned_string from a raw std::string* (sa/fixtures/c42_witness.cc: every witness_N must be
rejected with an access / conversion error, control() must compile).
Shape obligations read off the AST:
 - interned_string::operator==(const interned_string&) compares the raw_ pointers;
   hash_interned_string hashes raw() only;
 - operator==(const std::string&), operator< and operator std::string go through the pointee;
 - interned_string_pool::create_string looks the content up in one map keyed by the content and
   only allocates when the slot is still null (lookup-then-insert), returns the slot's pointer,
   the empty string maps to the null representative that the default constructor also uses;
 - the only friend of interned_string is interned_string_pool.
"""
import os
import re
import subprocess

from engine import compdb
from engine.facts import walk, call_args, member_call_object, expr_str
from engine.cfg import strip_casts
from engine.compdb import AnalysisBroken

UNITS = ["src/abg-ir.cc"]
HERE = os.path.dirname(os.path.dirname(os.path.abspath(__file__)))


def witnesses(ctx):
    src = os.path.join(HERE, "fixtures", "c42_witness.cc")
    repo = compdb.REPO
    cmd = ["clang++", "-fsyntax-only", "-ferror-limit=0", "-std=c++11", "-I" + os.path.join(repo, "include"),
           "-I" + repo, src]
    r = subprocess.run(cmd, capture_output=True, text=True)
    errs = {}
    for m in re.finditer(r"c42_witness\.cc:(\d+):\d+: error: ([^\n]*)", r.stderr):
        errs.setdefault(int(m.group(1)), []).append(m.group(2))
    lines = open(src).read().splitlines()
    fn_of_line, cur = {}, None
    for i, l in enumerate(lines, 1):
        m = re.match(r"(?:interned_string|void) (\w+)\(", l)
        if m:
            cur = m.group(1)
        fn_of_line[i] = cur
    by_fn = {}
    for ln, es in errs.items():
        by_fn.setdefault(fn_of_line.get(ln), []).extend(es)
    names = sorted({v for v in fn_of_line.values() if v and v.startswith("witness_")})
    if len(names) < 4:
        raise AnalysisBroken("witness fixture lost its witnesses")
    for w in names:
        es = by_fn.get(w, [])
        ok = any(re.search(r"private constructor|no viable conversion|no matching constructor|is a private member", e)
                 for e in es)
        ctx.ob("R-INTERN/WITNESS", "%s is rejected by the compiler" % w, ok, "sa/fixtures/c42_witness.cc",
               "; ".join(es)[:200] if es else
               "the witness compiles: code outside the pool can mint an interned_string from a raw pointer, so two "
               "equal strings can have different representatives")
    ctx.ob("R-INTERN/WITNESS", "control() compiles (the fixture is not rejected wholesale)", not by_fn.get("control") and
           not by_fn.get(None), "sa/fixtures/c42_witness.cc", "errors outside the witnesses: %s" % (
               (by_fn.get("control", []) + by_fn.get(None, []))[:3] or "none"))


def run(ctx):
    ctx.clause = ("within one pool an interned string has exactly one representative per content: only the pool can "
                  "create representatives, it reuses the existing one, and identity comparison / hashing use the "
                  "representative's address")
    ctx.rules = ["R-INTERN/WITNESS", "R-INTERN/SHAPE"]
    witnesses(ctx)
    P = ctx.program(UNITS)
    rec = P.records.get("abigail::interned_string")
    if not rec:
        raise AnalysisBroken("anchor vanished: class interned_string")
    friends = rec.get("friends", [])
    ctx.ob("R-INTERN/SHAPE", "interned_string's only friend is interned_string_pool",
           [f.split("::")[-1].replace("class ", "").strip() for f in friends] == ["interned_string_pool"], "", "friends: %s" % friends)
    priv_ctor = [m for m in rec["methods"] if m["n"] == "interned_string" and "string *" in m["sig"].replace("std::", "")]
    ctx.ob("R-INTERN/SHAPE", "the constructor from std::string* is private",
           len(priv_ctor) == 1 and priv_ctor[0]["access"] == 2, "", "ctor: %s access=%s" % (
               [m["sig"] for m in priv_ctor], [m["access"] for m in priv_ctor]))
    # operator== on two interned strings compares raw_
    eqs = [f for f in P.all_funcs() if f.cls == "abigail::interned_string" and f.n == "operator==" and
           "interned_string" in (f.unit.type(f.params()[0]["t"]) or {}).get("c", "")]
    if len(eqs) != 1:
        raise AnalysisBroken("anchor vanished: interned_string::operator==(const interned_string&)")
    f = eqs[0]
    ctx.analysed(f)
    ret = [n for n in f.nodes() if n["k"] == "ReturnStmt"][0]["c"][0]
    e = strip_casts(ret)
    ok = e["k"] == "BinaryOperator" and e.get("op") == "==" and all(
        strip_casts(o)["k"] == "MemberExpr" and (f.decl(strip_casts(o)) or {}).get("n") == "raw_" for o in e["c"])
    ctx.ob("R-INTERN/SHAPE", "operator==(const interned_string&) compares the representatives' addresses", ok, f.loc(),
           "return %s" % expr_str(f, ret))
    # hash functor
    hs = [g for g in P.all_funcs() if g.cls == "abigail::hash_interned_string" and g.n == "operator()"]
    if len(hs) != 1:
        raise AnalysisBroken("anchor vanished: hash_interned_string::operator()")
    g = hs[0]
    ctx.analysed(g)
    calls = {(g.decl(n) or {}).get("n") for n in g.nodes() if n["k"] == "CXXMemberCallExpr"}
    ctx.ob("R-INTERN/SHAPE", "hash_interned_string hashes raw() only", "raw" in calls and not (calls & {"c_str", "operator basic_string"}),
           g.loc(), "member calls: %s" % sorted(c for c in calls if c))
    # pool
    cs = P.fn1("abigail::interned_string_pool::create_string")
    ctx.analysed(cs)
    maps = [n for n in cs.nodes() if n["k"] == "CXXOperatorCallExpr" and n.get("op") == "[]"]
    news = [n for n in cs.nodes() if n["k"] == "CXXNewExpr"]
    guarded = False
    for n in news:
        for anc in cs.ancestors(n):
            if anc["k"] == "IfStmt":
                c = expr_str(cs, anc["c"][0])
                guarded = c.replace(" ", "").startswith("!result") or "!result" in c
                break
    one_map = len(maps) == 1 and expr_str(cs, call_args(maps[0])[1]) == (cs.params()[0]["n"])
    ret = [n for n in cs.nodes() if n["k"] == "ReturnStmt"]
    ret_slot = len(ret) == 1 and "result" in expr_str(cs, ret[0]["c"][0])
    ctx.ob("R-INTERN/SHAPE", "create_string is lookup-then-insert on one map keyed by the content",
           one_map and len(news) == 1 and guarded and ret_slot, cs.loc(),
           "map lookups: %d (key %s); allocations: %d (guarded by a null test of the slot: %s); returns the slot: %s" % (
               len(maps), expr_str(cs, call_args(maps[0])[1]) if maps else "?", len(news), guarded, ret_slot))
    empt = any(anc["k"] == "IfStmt" and "empty()" in expr_str(cs, anc["c"][0]) for n in news for anc in cs.ancestors(n))
    ctx.ob("R-INTERN/SHAPE", "the empty string keeps the null representative", empt, cs.loc(),
           "the allocation is skipped for an empty content, so \"\" and a default-constructed interned_string share "
           "the null representative")
    ctx.assume("orderings of arbitrary string multisets are library behaviour (std::string) and are not re-verified; "
               "strings interned in different pools (environments) are outside the property")
