"""C42 - interned strings: identity <=> equal contents (within one pool): R-INTERN.

Type-level clause (compile-fail witnesses): no code outside interned_string_pool can build an
interned_string from a raw std::string* (sa/fixtures/c42_witness.cc: every witness_N must be
rejected with an access / conversion error, control() must compile).
Shape obligations read off the AST:
 - interned_string::operator==(const interned_string&) compares the raw_ pointers;
   hash_interned_string hashes raw() only;
 - operator==(const std::string&), operator< and operator std::string go through the pointee;
 - interned_string_pool::create_string looks the content up in one map keyed by the content and
   only allocates when the slot is still null (lookup-then-insert), returns the slot's pointer,
   the empty string maps to the null representative that the default constructor also uses;
 - the only friend of interned_string is interned_string_pool.
"""
import os
import re
import subprocess

from engine import compdb
from engine.facts import walk, call_args, member_call_object, expr_str
from engine.cfg import strip_casts
from engine.compdb import AnalysisBroken

UNITS = ["src/abg-ir.cc"]
HERE = os.path.dirname(os.path.dirname(os.path.abspath(__file__)))


def witnesses(ctx):
    src = os.path.join(HERE, "fixtures", "c42_witness.cc")
    repo = compdb.REPO
    cmd = ["clang++", "-fsyntax-only", "-ferror-limit=0", "-std=c++11", "-I" + os.path.join(repo, "include"),
           "-I" + repo, src]
    r = subprocess.run(cmd, capture_output=True, text=True)
    errs = {}
    for m in re.finditer(r"c42_witness\.cc:(\d+):\d+: error: ([^\n]*)", r.stderr):
        errs.setdefault(int(m.group(1)), []).append(m.group(2))
    lines = open(src).read().splitlines()
    fn_of_line, cur = {}, None
    for i, l in enumerate(lines, 1):
        m = re.match(r"(?:interned_string|void) (\w+)\(", l)
        if m:
            cur = m.group(1)
        fn_of_line[i] = cur
    by_fn = {}
    for ln, es in errs.items():
        by_fn.setdefault(fn_of_line.get(ln), []).extend(es)
    names = sorted({v for v in fn_of_line.values() if v and v.startswith("witness_")})
    if len(names) < 4:
        raise AnalysisBroken("witness fixture lost its witnesses")
    for w in names:
        es = by_fn.get(w, [])
        ok = any(re.search(r"private constructor|no viable conversion|no matching constructor|is a private member", e)
                 for e in es)
        ctx.ob("R-INTERN/WITNESS", "%s is rejected by the compiler" % w, ok, "sa/fixtures/c42_witness.cc",
               "; ".join(es)[:200] if es else
               "the witness compiles: code outside the pool can mint an interned_string from a raw pointer, so two "
               "equal strings can have different representatives")
    ctx.ob("R-INTERN/WITNESS", "control() compiles (the fixture is not rejected wholesale)", not by_fn.get("control") and
           not by_fn.get(None), "sa/fixtures/c42_witness.cc", "errors outside the witnesses: %s" % (
               (by_fn.get("control", []) + by_fn.get(None, []))[:3] or "none"))


def run(ctx):
    ctx.clause = ("within one pool an interned string has exactly one representative per content: only the pool can "
                  "create representatives, it reuses the existing one, and identity comparison / hashing use the "
                  "representative's address")
    ctx.rules = ["R-INTERN/WITNESS", "R-INTERN/SHAPE"]
    witnesses(ctx)
    P = ctx.program(UNITS)
    rec = P.records.get("abigail::interned_string")
    if not rec:
        raise AnalysisBroken("anchor vanished: class interned_string")
    friends = rec.get("friends", [])
    ctx.ob("R-INTERN/SHAPE", "interned_string's only friend is interned_string_pool",
           [f.split("::")[-1].replace("class ", "").strip() for f in friends] == ["interned_string_pool"], "", "friends: %s" % friends)
    priv_ctor = [m for m in rec["methods"] if m["n"] == "interned_string" and "string *" in m["sig"].replace("std::", "")]
    ctx.ob("R-INTERN/SHAPE", "the constructor from std::string* is private",
           len(priv_ctor) == 1 and priv_ctor[0]["access"] == 2, "", "ctor: %s access=%s" % (
               [m["sig"] for m in priv_ctor], [m["access"] for m in priv_ctor]))
    # operator== on two interned strings compares raw_
    eqs = [f for f in P.all_funcs() if f.cls == "abigail::interned_string" and f.n == "operator==" and
           "interned_string" in (f.unit.type(f.params()[0]["t"]) or {}).get("c", "")]
    if len(eqs) != 1:
        raise AnalysisBroken("anchor vanished: interned_string::operator==(const interned_string&)")
    f = eqs[0]
    ctx.analysed(f)
    ret = [n for n in f.nodes() if n["k"] == "ReturnStmt"][0]["c"][0]
    e = strip_casts(ret)
    ok = e["k"] == "BinaryOperator" and e.get("op") == "==" and all(
        strip_casts(o)["k"] == "MemberExpr" and (f.decl(strip_casts(o)) or {}).get("n") == "raw_" for o in e["c"])
    ctx.ob("R-INTERN/SHAPE", "operator==(const interned_string&) compares the representatives' addresses", ok, f.loc(),
           "return %s" % expr_str(f, ret))
    # hash functor
    hs = [g for g in P.all_funcs() if g.cls == "abigail::hash_interned_string" and g.n == "operator()"]
    if len(hs) != 1:
        raise AnalysisBroken("anchor vanished: hash_interned_string::operator()")
    g = hs[0]
    ctx.analysed(g)
    calls = {(g.decl(n) or {}).get("n") for n in g.nodes() if n["k"] == "CXXMemberCallExpr"}
    ctx.ob("R-INTERN/SHAPE", "hash_interned_string hashes raw() only", "raw" in calls and not (calls & {"c_str", "operator basic_string"}),
           g.loc(), "member calls: %s" % sorted(c for c in calls if c))
    # pool
    cs = P.fn1("abigail::interned_string_pool::create_string")
    ctx.analysed(cs)
    check_create_string(ctx, cs)
    ctx.assume("orderings of arbitrary string multisets are library behaviour (std::string) and are not re-verified; "
               "strings interned in different pools (environments) are outside the property")



def check_create_string(ctx, cs):
    """create_string(content):
    (a) exactly one container of the pool is consulted, with the content as the key (operator[], insert, emplace or
        find on a member of priv_), and one allocation site exists;
    (b) on every path to the return, the pointer handed to interned_string(..) is the slot of that lookup and is
        either freshly assigned from `new`, known non-null (branch facts), or the content is known to be empty -
        a slot left null for a non-empty content (earlier failed allocation) is refilled, never handed out;
    (c) the allocation is not performed for an empty content ("" keeps the null representative that the default
        constructor uses)."""
    from engine.cfg import ptr_key, assigned_key
    cfg = cs.cfg()
    pname = cs.params()[0]["n"]
    pid = cs.r["params"][0]

    def is_param(e):
        e = strip_casts(e)
        return e is not None and e["k"] == "DeclRefExpr" and e.get("d") == pid
    lookups = []
    for n in cs.nodes():
        if n["k"] == "CXXOperatorCallExpr" and n.get("op") == "[]" and len(call_args(n)) == 2 and is_param(call_args(n)[1]):
            lookups.append(n)
        if n["k"] == "CXXMemberCallExpr" and (cs.decl(n) or {}).get("n") in ("insert", "emplace", "find") and \
                any(is_param(x) for a in call_args(n) for x in walk(a)):
            lookups.append(n)
    news = [n for n in cs.nodes() if n["k"] == "CXXNewExpr"]
    ctx.ob("R-INTERN/SHAPE", "create_string consults one container keyed by the content and has one allocation site",
           len(lookups) == 1 and len(news) == 1, cs.loc(),
           "lookups keyed by `%s`: %s; allocations: %d" % (pname, [expr_str(cs, n)[:50] for n in lookups], len(news)))
    rets = [n for n in cs.nodes() if n["k"] == "ReturnStmt" and n.get("c")]

    def ret_ptr(r):
        v = strip_casts(r["c"][0])
        while v is not None and v["k"] in ("CXXConstructExpr", "CXXFunctionalCastExpr", "CXXTemporaryObjectExpr",
                                           "ExprWithCleanups", "CXXBindTemporaryExpr", "MaterializeTemporaryExpr"):
            a = call_args(v) if v["k"] in ("CXXConstructExpr", "CXXTemporaryObjectExpr") else v.get("c")
            if not a or len(a) != 1:
                break
            v = strip_casts(a[0])
        return v
    # path exploration (the function is tiny): facts = {('nn', key), ('new', key), 'EMPTY'}
    bad, n_paths = [], 0
    overwrites = []
    stack = [(cfg.entry, 0, frozenset())]
    seen = set()
    while stack:
        b, i, facts = stack.pop()
        blk = cfg.blocks[b]
        ended = False
        for e in blk.elems[i:]:
            k = assigned_key(cs, e)
            if k is not None:
                had = facts
                facts = frozenset(x for x in facts if not (isinstance(x, tuple) and x[1] == k))
                rhs = None
                if e["k"] == "BinaryOperator" and e.get("op") == "=":
                    rhs = strip_casts(e["c"][1])
                elif e["k"] == "CXXOperatorCallExpr" and e.get("op") == "=" and len(e["c"]) == 3:
                    rhs = strip_casts(e["c"][2])
                if rhs is not None and rhs["k"] == "CXXNewExpr":
                    if not (("null", k) in had or "FRESH" in had):
                        overwrites.append((e, k))
                    facts = facts | {("new", k)}
            if e["k"] == "ReturnStmt" and e.get("c"):
                n_paths += 1
                v = ret_ptr(e)
                key = ptr_key(cs, v) if v is not None else None
                ok = "EMPTY" in facts or (key is not None and (("nn", key) in facts or ("new", key) in facts))
                if not ok:
                    bad.append((e, key, facts))
                ended = True
                break
        if ended:
            continue
        br = cfg.branch(b)
        for idx, s_ in enumerate(blk.succs):
            if s_ is None or s_ not in cfg.blocks:
                continue
            nf = facts
            if br is not None:
                nf = facts | frozenset(x for x in cfg.edge_facts(cs, b, idx) if x[0] in ("nn", "null"))
                for c in cfg.branch_conds(b):
                    c0, truth = strip_casts(c), idx == 0
                    while c0 is not None and c0["k"] in ("UnaryOperator", "CXXOperatorCallExpr") and c0.get("op") == "!":
                        c0, truth = strip_casts(c0["c"][-1]), not truth
                    if c0 is not None and c0["k"] == "CXXMemberCallExpr" and (cs.decl(c0) or {}).get("n") == "empty" and \
                            is_param(member_call_object(c0)) and truth:
                        nf = nf | {"EMPTY"}
                    if c0 is not None and c0["k"] == "MemberExpr" and (cs.decl(c0) or {}).get("n") == "second" and truth:
                        nf = nf | {"FRESH"}      # insert(..).second: the key was not there
            st = (s_, 0, nf)
            if st not in seen:
                seen.add(st)
                stack.append(st)
    ctx.ob("R-INTERN/SHAPE", "create_string never hands out a null representative for a non-empty content", not bad and n_paths > 0,
           cs.loc(bad[0][0]) if bad else cs.loc(),
           "%d path(s) to the return: the slot is freshly allocated, known non-null, or the content is empty" % n_paths if not bad else
           "a path returns `%s` without that slot having been tested non-null or (re)allocated on it: a slot left null "
           "under a non-empty key (an allocation that threw after the key was inserted) is handed out as the "
           "representative - two equal strings stop comparing equal to their own contents" % (bad[0][1] or "?"))
    ctx.ob("R-INTERN/SHAPE", "create_string allocates a representative only into a slot that holds none", not overwrites,
           cs.loc(overwrites[0][0]) if overwrites else cs.loc(),
           "every `slot = new string` is reached with the slot known null (or the key known freshly inserted)" if not overwrites else
           "`%s` is assigned a new string on a path where it may already hold one: the second intern() of a content gets "
           "another representative than the first - equal contents, different identity" % overwrites[0][1])
    empt = False
    for n in news:
        w = cfg.where(n)
        # the allocation is only reached on paths where the content is known non-empty
        for anc in cs.ancestors(n):
            if anc["k"] == "IfStmt" and "empty()" in expr_str(cs, anc["c"][0]) and pname in expr_str(cs, anc["c"][0]):
                empt = True
    ctx.ob("R-INTERN/SHAPE", "the empty string keeps the null representative", empt or _empty_preregistered(cs), cs.loc(),
           "the allocation is skipped for an empty content (or \"\" is pre-registered as null by the pool's constructor), so "
           "\"\" and a default-constructed interned_string share the null representative")


def _empty_preregistered(cs):
    """the pool's constructor maps "" to null, so create_string("") finds an existing entry"""
    P = cs.unit.program if hasattr(cs.unit, "program") else None
    for g in cs.unit.functions:
        if g.cls == "abigail::interned_string_pool" and g.n == "interned_string_pool":
            txt = " ".join(expr_str(g, n) for n in g.nodes() if n["k"] in ("CXXOperatorCallExpr", "BinaryOperator"))
            if '""' in txt and ("= 0" in txt or "nullptr" in txt):
                return True
    return False
