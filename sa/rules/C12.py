"""C12 - presentation options cannot influence the verdict: R-PRESENT (non-interference by reachability)."""
from rules import reach_rules as rr


def run(ctx):
    ctx.clause = ("no function reachable from the verdict entry points (compute_diff, has_*changes, filtering, "
                  "suppression, stats) reads a presentation flag; corpus path / architecture are read there only for "
                  "suppression matching and the architecture comparison")
    ctx.rules = ["R-PRESENT", "R-PRESENT/control"]
    P = ctx.program(None)
    rr.check_present(ctx, P)
    ctx.assume("call graph: CHA for virtual calls (over-approximate), function references counted as calls; "
               "unresolved indirect calls inside the closure are listed in the evidence")
