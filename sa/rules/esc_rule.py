"""R-ESC: every input-derived string is sanitised before it enters the ABIXML stream.

Sinks: operands of operator<< on an XML output stream inside namespace abigail::xml_writer
(`ostream&` parameters, `ctxt.get_ostream()`, locals bound to it).  Insertions into local
string streams are not sinks; the strings built from them are classified by what was inserted.
An operand is *safe* if it is arithmetic, a literal, a stream manipulator, the result of
xml::escape_xml_string (attribute context) / xml::escape_xml_comment (comment context), the
result of an id generator or of a function whose every return is safe, or a local/parameter
all of whose definitions / call-site arguments are safe.  Anything else of string type read
from the IR is tainted.
"""
from engine.facts import walk, call_args, member_call_object, expr_str, CALL_KINDS
from engine.cfg import strip_casts
from engine.compdb import AnalysisBroken

UNITS = ["src/abg-writer.cc", "src/abg-libxml-utils.cc", "src/abg-ir.cc", "src/abg-config.cc"]
NS = "abigail::xml_writer::"
SANITISERS = {"abigail::xml::escape_xml_string": "attr", "abigail::xml::escape_xml_comment": "comment"}
# id generators: checked separately (R-ESC/IDGEN) to build ids from literal prefixes, digits and hex
ID_GENERATORS = {
    "abigail::xml_writer::write_context::get_id_for_type",
    "abigail::xml_writer::write_context::get_id_for_fn_tmpl",
    "abigail::xml_writer::write_context::get_id_for_class_tmpl",
    "abigail::xml_writer::id_manager::get_id",
    "abigail::xml_writer::id_manager::get_id_with_prefix",
}
STRINGY = ("basic_string", "interned_string", "char *", "char const *", "const char *")


def is_stringy(t):
    if t is None:
        return False
    c = t["c"]
    if t.get("arith") and "char" not in c:
        return False
    return any(s in c for s in STRINGY)


def is_ostream_type(t):
    return t is not None and ("basic_ostream<char" in t["c"])


def is_local_sstream(t):
    return t is not None and ("basic_ostringstream" in t["c"] or "basic_stringstream" in t["c"])


class Esc(object):
    def __init__(self, ctx, P):
        self.ctx = ctx
        self.P = P
        self.fn_safe = {}            # usr -> bool (every return safe)
        self.in_progress = set()
        self.param_sites = None

    # ---------------------------------------------------------------- helpers
    def writer_funcs(self):
        return [f for f in self.P.all_funcs()
                if f.q.startswith(NS) and f.relfile.endswith("abg-writer.cc") and not f.dep]

    def callsites_of(self, g):
        if self.param_sites is None:
            self.param_sites = {}
            for f in self.P.all_funcs():
                if f.dep:
                    continue
                for n, d in f.calls():
                    if d.get("u"):
                        self.param_sites.setdefault(d["u"], []).append((f, n))
        return self.param_sites.get(g.u, [])

    def defs_of_local(self, f, name):
        """name: decl index (int) of the local, or its name (str)"""
        if isinstance(name, int):
            same = lambda node: node is not None and node.get("d") == name
        else:
            same = lambda node: node is not None and (f.decl(node) or {}).get("n") == name
        return self._defs_of_local(f, same)

    def _defs_of_local(self, f, same):
        """all defining expressions of a local variable (inits and assignments); None if it is
        modified in a way we do not model (passed by non-const reference, += of unknown...)"""
        defs = []
        for n in f.nodes():
            k = n["k"]
            if k == "CXXForRangeStmt" and same(n):
                defs.append(("ELEMENTS", n["c"][0]))
            elif k == "VarDecl" and same(n):
                if n.get("c") and n["c"][0] is not None:
                    defs.append(n["c"][0])
                else:
                    defs.append(None)           # default constructed: empty
            elif k in ("BinaryOperator", "CompoundAssignOperator") and n.get("op") in ("=", "+="):
                l = strip_casts(n["c"][0])
                if l is not None and l["k"] == "DeclRefExpr" and same(l):
                    defs.append(n["c"][1])
            elif k == "CXXOperatorCallExpr" and n.get("op") in ("=", "+=") and len(n["c"]) == 3:
                l = strip_casts(n["c"][1])
                if l is not None and l["k"] == "DeclRefExpr" and same(l):
                    defs.append(n["c"][2])
            elif k in CALL_KINDS:
                d = f.decl(n)
                pts = (d or {}).get("pt", [])
                args = call_args(n)
                off = 1 if (k == "CXXOperatorCallExpr" and d and d["k"] == "CXXMethod") else 0
                for i, a in enumerate(args):
                    a0 = strip_casts(a)
                    if a0 is not None and a0["k"] == "DeclRefExpr" and same(a0):
                        j = i - off
                        pt = f.unit.type(pts[j]) if 0 <= j < len(pts) else None
                        if pt is not None and pt.get("ref") and not pt.get("const") and is_stringy(pt):
                            defs.append("OUTPARAM:" + (d["q"] if d else "?"))
        return defs

    # ---------------------------------------------------------------- classification
    def safe(self, f, n, ctxkind, depth=0, seen=None):
        """(is_safe, reason).  ctxkind: 'attr' | 'comment' | 'any'."""
        n = strip_casts(n)
        if n is None:
            return True, "empty"
        if depth > 8:
            return False, "too deep"
        k = n["k"]
        t = f.type(n)
        c = n.get("c", [])
        if k in ("StringLiteral", "CharacterLiteral", "IntegerLiteral", "CXXBoolLiteralExpr", "FloatingLiteral"):
            return True, "literal"
        if t is not None and t.get("arith") and not is_stringy(t):
            return True, "arithmetic"
        if k in ("CXXConstructExpr", "CXXTemporaryObjectExpr", "CXXFunctionalCastExpr"):
            if not c:
                return True, "empty string"
            return self.safe(f, c[0], ctxkind, depth + 1, seen)
        if k == "ConditionalOperator":
            a = self.safe(f, c[1], ctxkind, depth + 1, seen)
            b = self.safe(f, c[2], ctxkind, depth + 1, seen)
            return (a[0] and b[0]), (a[1] if not a[0] else b[1])
        if k in ("CallExpr", "CXXMemberCallExpr", "CXXOperatorCallExpr"):
            d = f.decl(n)
            if d is None:
                return False, "unresolved call"
            q = d["q"]
            if q in SANITISERS:
                kind = SANITISERS[q]
                if ctxkind != "any" and kind != ctxkind:
                    return False, "wrong-context sanitiser %s in %s context" % (d["n"], ctxkind)
                return True, "sanitised by " + d["n"]
            if q in ID_GENERATORS:
                return True, "id generator " + d["n"]
            if k == "CXXOperatorCallExpr" and n.get("op") == "+":
                a = self.safe(f, c[1], ctxkind, depth + 1, seen)
                b = self.safe(f, c[2], ctxkind, depth + 1, seen)
                return (a[0] and b[0]), (a[1] if not a[0] else b[1])
            if k == "CXXMemberCallExpr" and d["n"].startswith("operator ") :
                return self.safe(f, member_call_object(n), ctxkind, depth + 1, seen)     # conversion operator
            if k == "CXXMemberCallExpr" and d["n"] in ("top", "front", "back", "at") and d["q"].startswith("std::"):
                return self.elements_safe(f, member_call_object(n), ctxkind, depth + 1, seen)
            if k == "CXXOperatorCallExpr" and n.get("op") == "[]" and d["q"].startswith("std::"):
                return self.elements_safe(f, c[1], ctxkind, depth + 1, seen)
            if k == "CXXOperatorCallExpr" and n.get("op") in ("*", "->") and d["q"].startswith("__gnu_cxx::__normal_iterator") or \
                    (k == "CXXOperatorCallExpr" and n.get("op") in ("*", "->") and "iterator" in d["q"]):
                it = strip_casts(c[1])
                if it is not None and it["k"] == "DeclRefExpr":
                    for e in self.defs_of_local(f, it["d"]):
                        e0 = strip_casts(e) if isinstance(e, dict) else None
                        while e0 is not None and e0["k"] == "CXXConstructExpr" and len(e0.get("c", [])) == 1:
                            e0 = strip_casts(e0["c"][0])
                        if e0 is not None and e0["k"] == "CXXMemberCallExpr" and \
                                (f.decl(e0) or {}).get("n") in ("begin", "cbegin", "rbegin"):
                            return self.elements_safe(f, member_call_object(e0), ctxkind, depth + 1, seen)
                    return False, "iterator `%s` over an unknown range" % expr_str(f, it)
            if k == "CXXOperatorCallExpr" and n.get("op") in ("*", "->"):
                return self.safe(f, c[1], ctxkind, depth + 1, seen)
            if d["n"] in ("str", "c_str") and k == "CXXMemberCallExpr":
                obj = member_call_object(n)
                ot = f.type(obj)
                if is_local_sstream(ot):
                    return self.sstream_safe(f, obj, ctxkind, depth, seen)
                return self.safe(f, obj, ctxkind, depth + 1, seen)
            g = self.P.funcs.get(d.get("u"))
            if g is not None and g.q.startswith("abigail::") :
                ok = self.returns_safe(g)
                return ok, ("function %s returns only safe strings" % d["n"]) if ok else \
                    "value of %s() comes from the IR / input" % d["n"]
            return False, "value of %s() comes from the IR / input" % d["n"]
        if k == "DeclRefExpr":
            d = f.decl(n)
            if d is None:
                return False, "?"
            if d["k"] in ("Function", "CXXMethod"):
                return True, "manipulator"
            if d["k"] == "EnumConstant":
                return True, "enumerator"
            name = d["n"]
            key = (f.u, name)
            seen = seen or set()
            if key in seen:
                return True, "recursive def"
            seen = seen | {key}
            if d["k"] == "ParmVar":
                return self.param_safe(f, name, ctxkind, depth, seen)
            if d["k"] == "Var" and d.get("st") == "local":
                defs = self.defs_of_local(f, n["d"])
                if not defs:
                    return False, "local `%s` has no visible definition" % name
                for e in defs:
                    if e is None:
                        continue
                    if isinstance(e, str):
                        return False, "local `%s` is filled through an out-parameter of %s" % (name, e[9:])
                    if isinstance(e, tuple):
                        ok, why = self.elements_safe(f, e[1], ctxkind, depth + 1, seen)
                    else:
                        ok, why = self.safe(f, e, ctxkind, depth + 1, seen)
                    if not ok:
                        return False, "local `%s` <- %s" % (name, why)
                return True, "local `%s` has only safe definitions" % name
            return False, "global/static `%s`" % name
        if k == "MemberExpr":
            d = f.decl(n)
            if d is not None and d["k"] == "Field":
                return self.field_safe(d["q"])
            return False, "member %s" % expr_str(f, n)
        if k == "ArraySubscriptExpr":
            return self.safe(f, c[0], ctxkind, depth + 1, seen)
        return False, "expression %s" % k

    def elements_safe(self, f, cont, ctxkind, depth, seen):
        """are all elements of the container denoted by `cont` safe strings?"""
        cont = strip_casts(cont)
        if cont is None or depth > 8:
            return False, "unknown container"
        if cont["k"] == "DeclRefExpr":
            d = f.decl(cont)
            name = d["n"]
            if d["k"] == "ParmVar":
                idx = [i for i, p in enumerate(f.params()) if p["n"] == name]
                sites = self.callsites_of(f)
                if not idx or not sites:
                    return False, "container parameter `%s` (no visible caller)" % name
                for g, call in sites:
                    args = call_args(call)
                    if idx[0] < len(args):
                        ok, why = self.elements_safe(g, args[idx[0]], ctxkind, depth + 1, seen)
                        if not ok:
                            return False, "container parameter `%s` <- %s in %s" % (name, why, g.n)
                return True, "container parameter `%s`: every caller passes safe elements" % name
            if d["k"] == "Var" and d.get("st") == "local":
                found = False
                for n in f.nodes():
                    if n["k"] == "CXXMemberCallExpr" and (f.decl(n) or {}).get("n") in (
                            "push_back", "push", "insert", "emplace_back", "emplace", "push_front"):
                        o = strip_casts(member_call_object(n))
                        if o is not None and o["k"] == "DeclRefExpr" and o.get("d") == cont["d"]:
                            found = True
                            for a in call_args(n):
                                ok, why = self.safe(f, a, ctxkind, depth + 1, seen)
                                if not ok:
                                    return False, "container `%s` <- %s" % (name, why)
                for e in self.defs_of_local(f, cont["d"]):
                    if isinstance(e, dict):
                        e0 = strip_casts(e)
                        if e0 is not None and not (e0["k"] == "CXXConstructExpr" and not e0.get("c")):
                            ok, why = self.elements_safe(f, e0, ctxkind, depth + 1, seen)
                            if not ok:
                                return False, "container `%s` <- %s" % (name, why)
                            found = True
                    elif isinstance(e, str):
                        return False, "container `%s` filled through an out-parameter" % name
                return (True, "container `%s` holds only safe elements" % name) if found else \
                    (False, "container `%s` has no visible definition" % name)
        if cont["k"] in ("CXXMemberCallExpr", "CallExpr"):
            return False, "elements of %s come from the IR / input" % expr_str(f, cont)
        if cont["k"] == "CXXConstructExpr" and len(cont.get("c", [])) == 1:
            return self.elements_safe(f, cont["c"][0], ctxkind, depth + 1, seen)
        return False, "elements of %s" % expr_str(f, cont)

    def sstream_safe(self, f, obj, ctxkind, depth, seen):
        name = expr_str(f, obj)
        for n in f.nodes():
            if n["k"] == "CXXOperatorCallExpr" and n.get("op") == "<<":
                root = self.stream_root(f, n)
                if root is not None and expr_str(f, root) == name:
                    ok, why = self.safe(f, call_args(n)[1], ctxkind, depth + 1, seen)
                    if not ok:
                        return False, "string stream `%s` << %s" % (name, why)
        return True, "string stream `%s` holds only safe insertions" % name

    def param_safe(self, f, name, ctxkind, depth, seen):
        idx = None
        for i, p in enumerate(f.params()):
            if p["n"] == name:
                idx = i
        if idx is None:
            return False, "parameter?"
        sites = self.callsites_of(f)
        if not sites:
            return False, "parameter `%s` of %s (no visible caller)" % (name, f.n)
        for g, call in sites:
            args = call_args(call)
            d = g.decl(call)
            off = 1 if (call["k"] == "CXXOperatorCallExpr" and d and d["k"] == "CXXMethod") else 0
            j = idx + off
            if j >= len(args) or args[j] is None or args[j]["k"] == "CXXDefaultArgExpr":
                continue
            ok, why = self.safe(g, args[j], ctxkind, depth + 1, seen)
            if not ok:
                return False, "parameter `%s` <- %s in %s" % (name, why, g.n)
        return True, "parameter `%s`: every call site passes a safe value" % name

    def field_safe(self, q):
        """a data member is safe if every store to it anywhere in the analysed units is safe"""
        if not hasattr(self, "_field"):
            self._field = {}
        if q in self._field:
            return self._field[q]
        self._field[q] = (True, "recursive")
        stores = []
        for g in self.P.all_funcs():
            if g.dep:
                continue
            for n in g.nodes():
                if n["k"] == "CtorInit" and (g.decl(n) or {}).get("q") == q:
                    stores.append((g, n["c"][0] if n.get("c") else None))
                elif n["k"] in ("BinaryOperator", "CXXOperatorCallExpr") and n.get("op") in ("=", "+="):
                    c = n["c"]
                    lhs, rhs = (c[1], c[2]) if n["k"] == "CXXOperatorCallExpr" and len(c) == 3 else (c[0], c[1])
                    l = strip_casts(lhs)
                    if l is not None and l["k"] == "MemberExpr" and (g.decl(l) or {}).get("q") == q:
                        stores.append((g, rhs))
        res = (True, "field %s: all %d stores are safe" % (q.split("::")[-1], len(stores)))
        if not stores:
            res = (False, "field %s has no visible store" % q)
        for g, rhs in stores:
            if rhs is None:
                continue
            r0 = strip_casts(rhs)
            if r0 is not None and r0["k"] == "DeclRefExpr" and (g.decl(r0) or {}).get("k") == "ParmVar" \
                    and not self.callsites_of(g):
                self.ctx.note("store %s <- parameter of %s ignored: the function has no caller in the whole program "
                              "(library API not used by the tools)" % (q, g.sig))
                continue
            ok, why = self.safe(g, rhs, "any", 2, None)
            if not ok:
                res = (False, "field %s <- %s in %s" % (q.split("::")[-1], why, g.n))
                break
        self._field[q] = res
        return res

    def returns_safe(self, g):
        if g.u in self.fn_safe:
            return self.fn_safe[g.u]
        if g.u in self.in_progress:
            return True
        self.in_progress.add(g.u)
        ok = True
        rets = [n for n in g.nodes() if n["k"] == "ReturnStmt"]
        if not rets:
            ok = False
        for r in rets:
            if not r.get("c") or r["c"][0] is None:
                continue
            s, _ = self.safe(g, r["c"][0], "any", 1, None)
            if not s:
                ok = False
                break
        self.in_progress.discard(g.u)
        self.fn_safe[g.u] = ok
        return ok

    # ---------------------------------------------------------------- sinks
    def stream_root(self, f, n):
        """leftmost stream operand of a << chain"""
        cur = n
        while cur is not None and cur["k"] == "CXXOperatorCallExpr" and cur.get("op") == "<<":
            cur = strip_casts(call_args(cur)[0])
        return cur

    def is_xml_stream(self, f, root):
        if root is None:
            return False
        t = f.type(root)
        if is_local_sstream(t):
            return False
        if root["k"] == "DeclRefExpr":
            d = f.decl(root)
            if d is None:
                return False
            if d["q"] in ("std::cerr", "std::cout", "std::clog"):
                return False
            return is_ostream_type(t)
        if root["k"] in ("CXXMemberCallExpr", "CallExpr"):
            d = f.decl(root)
            return d is not None and d["n"] == "get_ostream"
        return False

    def contexts(self, f, sinks):
        """{insertion node id: 'comment'|'attr'} from the order of `<!--` / `-->` literals among the
        operands inserted into the stream (source order)."""
        sink_ids = {n["i"] for n in sinks}
        order = []

        def flatten(n):
            left = strip_casts(call_args(n)[0])
            if left is not None and left["k"] == "CXXOperatorCallExpr" and left.get("op") == "<<":
                flatten(left)
            order.append(n)

        def visit(n):
            if n is None:
                return
            if n["k"] == "CXXOperatorCallExpr" and n.get("op") == "<<" and n["i"] in sink_ids:
                flatten(n)
                return
            for k in ("init", "var"):
                if k in n:
                    visit(n[k])
            for c in n.get("c", ()):
                visit(c)
        visit(f.body)
        out, incomment = {}, False
        for n in order:
            a = strip_casts(call_args(n)[1])
            if a is not None and a["k"] == "StringLiteral":
                s_ = a.get("s", "")
                # the literal may both close and open
                i, j = s_.rfind("<!--"), s_.rfind("-->")
                if i >= 0 or j >= 0:
                    incomment = i > j
            out[n["i"]] = "comment" if incomment else "attr"
        return out

    def run(self):
        ctx = self.ctx
        n_sinks = n_sanitised = 0
        for f in sorted(self.writer_funcs(), key=lambda x: (x.l0, x.q)):
            sinks = []
            for n in f.nodes():
                if n["k"] == "CXXOperatorCallExpr" and n.get("op") == "<<":
                    root = self.stream_root(f, n)
                    if self.is_xml_stream(f, root):
                        sinks.append(n)
            if not sinks:
                continue
            ctx.analysed(f)
            kinds = self.contexts(f, sinks)
            for n in sinks:
                a = call_args(n)[1]
                a0 = strip_casts(a)
                t = f.type(a0)
                if a0 is None:
                    continue
                if a0["k"] in ("StringLiteral", "CharacterLiteral") or (t is not None and t.get("arith") and not is_stringy(t)):
                    continue
                if a0["k"] == "DeclRefExpr" and (f.decl(a0) or {}).get("k") in ("Function", "CXXMethod"):
                    continue
                n_sinks += 1
                kind = kinds.get(n["i"], "attr")
                ok, why = self.safe(f, a, kind)
                if ok and "sanitised" in why:
                    n_sanitised += 1
                ent = "%s: << %s" % (f.n, expr_str(f, a0))
                ctx.ob("R-ESC", ent, ok, f.loc(n),
                       ("%s context: %s" % (kind, why)) if ok else
                       "unsanitised string reaches the XML stream (%s context): %s" % (kind, why))
        ctx.floor("R-ESC", "string-typed insertions into the XML stream", n_sinks, 40)
        ctx.floor("R-ESC", "insertions protected by a sanitiser", n_sanitised, 25)
        self.check_sanitiser_table()

    def check_sanitiser_table(self):
        """xml::escape_xml_string must map each of < > & ' " to an entity."""
        ctx = self.ctx
        fs = [f for f in self.P.fn("abigail::xml::escape_xml_string") if len(f.r["params"]) == 2]
        if len(fs) != 1:
            raise AnalysisBroken("anchor escape_xml_string(const string&, string&) not found")
        f = fs[0]
        ctx.analysed(f)
        cases = {}
        for n in f.nodes():
            if n["k"] == "CaseStmt" and "v" in n:
                lits = [x.get("s") for x in walk(n["c"][1]) if x["k"] == "StringLiteral"]
                cases[chr(n["v"])] = lits[0] if lits else None
        want = {"<": "&lt;", ">": "&gt;", "&": "&amp;", "'": "&apos;", '"': "&quot;"}
        for ch, ent in want.items():
            ctx.ob("R-ESC/TABLE", "escape_xml_string maps %r" % ch, cases.get(ch) == ent, f.loc(),
                   "maps to %r (expected %r)" % (cases.get(ch), ent))
        # control characters: XML 1.0 forbids most C0 characters; the sanitiser has no case for them
        has_ctrl = any(ord(ch) < 0x20 and ch not in "\t\n\r" for ch in cases)
        ctx.ob("R-ESC/TABLE", "sanitiser-table C0-controls", has_ctrl, f.loc(),
               "C0 control characters (0x01-0x08,0x0b,0x0c,0x0e-0x1f) and invalid UTF-8 pass through unchanged; "
               "such bytes in a name/SONAME give a document XML parsers reject")
        fc = [g for g in self.P.fn("abigail::xml::escape_xml_comment") if len(g.r["params"]) == 2]
        if len(fc) != 1:
            raise AnalysisBroken("anchor escape_xml_comment(const string&, string&) not found")
        g = fc[0]
        # R-ESC/SIGN: plain `char` is signed on the supported targets; a byte of a UTF-8 sequence is negative.  In the
        # sanitisers a character is only ever *selected on* (switch / == against a character literal) or copied; any
        # numeric use of it - a relational comparison, a conversion to an integer that is then formatted or indexed - must
        # go through unsigned char, or every non-ASCII byte takes the branch meant for control characters
        # (`*i < 0x20` -> "&#-61;": a document no parser accepts).
        n_num = 0
        for h in (f, g):
            seen = {}
            for x in h.nodes():
                operands = []
                if x["k"] == "BinaryOperator" and x.get("op") in ("<", "<=", ">", ">=", "-", "+", "/", "%", ">>", "<<", "&", "|"):
                    operands = [c for c in x["c"] if c is not None]
                elif x["k"] in ("CXXStaticCastExpr", "CStyleCastExpr", "CXXFunctionalCastExpr") and (h.type(x) or {}).get("arith") and \
                        (h.type(x) or {}).get("c") not in ("char", "unsigned char", "const char", "bool"):
                    operands = [c for c in x.get("c", []) if c is not None]
                for o in operands:
                    o0 = strip_casts(o)
                    t = (h.type(o0) or {}).get("c", "") if o0 is not None else ""
                    if t.replace("const ", "").strip() == "char" and o0["k"] != "CharacterLiteral":
                        n_num += 1
                        ent = "%s: `%s` uses a character numerically through unsigned char" % (h.n, expr_str(h, x)[:40])
                        seen[ent] = seen.get(ent, 0) + 1
                        ctx.ob("R-ESC/SIGN", ent + ("" if seen[ent] == 1 else " #%d" % seen[ent]), False, h.loc(x),
                               "`%s` is a plain (signed) char: bytes >= 0x80 are negative, so every byte of a UTF-8 sequence "
                               "compares below any small constant and formats as a negative number" % expr_str(h, o0)[:40])
        ctx.note("R-ESC/SIGN: %d numeric use(s) of a plain char in the XML sanitisers (0 expected today; the seeded variant "
                 "C04-control-characters-as-signed-references is the positive example of the thorough tier)" % n_num)
        ctx.analysed(g)
        dash = any(n["k"] == "CaseStmt" and n.get("v") == ord("-") for n in g.nodes())
        ctx.ob("R-ESC/TABLE", "escape_xml_comment handles '-'", dash, g.loc(),
               "comment sanitiser rewrites '-' so that `--` cannot close the comment")
