"""R-DERIVCACHE: a lazily computed member is not computed before the members it is computed from are replaced.

corpus::priv keeps lazily computed views of the corpus (the symbols not referenced by debug info, the sorted symbol
vectors ...): `if (!cache) { cache = ...; <reads other members> }  return *cache;`, never reset.  Such a cache is a
function of the members its computation reads.  A function that *replaces or mutates* one of those members must not have
the cache computed first: the cache would keep describing the old contents for the rest of the corpus' life
(maybe_drop_some_exported_decls() restricts `fns` / `vars` to what an application uses; a set of "unreferenced" symbols
computed before that still counts the symbols of the dropped declarations as referenced - they are then in neither set,
and abicompat does not see a used alias disappear).

Caches and their dependencies are found structurally; the obligation is checked on the CFG of every function that writes
a dependency: no path passes a call that computes the cache (directly or through a one-line forwarding getter) and then
the write, with no reset of the cache in between.
"""
from engine.cfg import strip_casts, forward, state_before, TOP
from engine.facts import walk, call_args, member_call_object, expr_str
from engine.compdb import AnalysisBroken
from rules.null_rules import short

MUTATORS = ("push_back", "emplace_back", "insert", "erase", "clear", "assign", "swap", "resize", "pop_back", "reset")


def _field(f, e):
    e = strip_casts(e)
    if e is not None and e["k"] == "MemberExpr" and (f.decl(e) or {}).get("k") == "Field":
        return f.decl(e)["q"]
    return None


def caches(P, owner):
    """{getter usr: (cache field q, set of dependency field q's, getter)} for the lazy getters of class `owner`"""
    out = {}
    for g in P.all_funcs():
        if g.dep or g.cls != owner or g.cfg() is None:
            continue
        body = g.body["c"][-1] if g.body.get("c") else None
        stmts = [s for s in (body.get("c", []) if body is not None else []) if s is not None]
        if not stmts or stmts[0]["k"] != "IfStmt" or stmts[0]["c"][0] is None:
            continue
        cond = strip_casts(stmts[0]["c"][0])
        cfields = {_field(g, y) for y in walk(cond) if y["k"] == "MemberExpr"} - {None}
        if len(cfields) != 1:
            continue
        c = next(iter(cfields))
        then = stmts[0]["c"][1]
        if then is None:
            continue
        assigned = False
        deps = set()
        for y in walk(then):
            if y["k"] in ("BinaryOperator", "CXXOperatorCallExpr") and y.get("op") == "=":
                a = call_args(y) if y["k"] == "CXXOperatorCallExpr" else y["c"]
                if a and _field(g, a[0]) == c:
                    assigned = True
            if y["k"] == "CXXMemberCallExpr" and (g.decl(y) or {}).get("n") in ("reset",) and _field(g, member_call_object(y)) == c:
                assigned = True
            if y["k"] == "MemberExpr":
                q = _field(g, y)
                if q and q != c and q.startswith(owner + "::"):
                    deps.add(q)
        rets = [r for r in g.nodes() if r["k"] == "ReturnStmt" and r.get("c") and r["c"][0] is not None]
        returns_cache = any(_field(g, y) == c for r in rets for y in walk(r["c"][0]) if y["k"] == "MemberExpr")
        if assigned and deps and returns_cache:
            out[g.u] = (c, deps, g)
    return out


def check(ctx, P, owner="abigail::ir::corpus::priv", rule="R-DERIVCACHE"):
    cs = caches(P, owner)
    if len(cs) < 2:
        raise AnalysisBroken("anchor vanished: lazily computed members of %s (%d found)" % (owner, len(cs)))
    # forwarding getters: a function whose body is `return <obj>-><getter>();`
    fwd = {}
    for h in P.all_funcs():
        if h.dep or h.cfg() is None:
            continue
        calls = [x for x in h.nodes() if x["k"] == "CXXMemberCallExpr" and (h.decl(x) or {}).get("u") in cs]
        if calls and len([x for x in h.nodes() if x["k"] in ("CXXMemberCallExpr", "CallExpr")]) <= 2 and h.u not in cs:
            fwd[h.u] = (h.decl(calls[0]) or {}).get("u")
    by_dep = {}
    for u, (c, deps, g) in cs.items():
        for d in deps:
            by_dep.setdefault(d, []).append(u)
    ctx.note("%s: lazily computed members of %s and what they are computed from: %s" % (rule, owner.split("::", 2)[-1], "; ".join(
        "%s <- %s" % (c.split("::")[-1], ", ".join(sorted(d.split("::")[-1] for d in deps))) for c, deps, g in sorted(cs.values(), key=lambda t: t[0]))))
    n = 0
    for m in sorted(P.all_funcs(), key=lambda x: (x.file, x.l0)):
        if m.dep or m.cfg() is None or m.u in cs:
            continue
        if m.cls and m.n == m.cls.split("::")[-1]:
            continue
        writes = []
        for x in m.nodes():
            tgt = None
            if x["k"] in ("BinaryOperator", "CXXOperatorCallExpr") and x.get("op") == "=":
                a = call_args(x) if x["k"] == "CXXOperatorCallExpr" else x["c"]
                tgt = a[0] if a else None
            elif x["k"] == "CXXMemberCallExpr" and (m.decl(x) or {}).get("n") in MUTATORS:
                tgt = member_call_object(x)
            q = _field(m, tgt) if tgt is not None else None
            if q in by_dep:
                writes.append((x, q))
        if not writes:
            continue
        ctx.analysed(m)
        cfg = m.cfg()

        def tr(st, e, blk):
            if e["k"] in ("CXXMemberCallExpr", "CallExpr"):
                u = (m.decl(e) or {}).get("u")
                u = fwd.get(u, u)
                if u in cs:
                    return st | {cs[u][0]}
                if e["k"] == "CXXMemberCallExpr" and (m.decl(e) or {}).get("n") == "reset":
                    q = _field(m, member_call_object(e))
                    if q:
                        return frozenset(x for x in st if x != q)
            return st
        ins, _ = forward(cfg, frozenset(), tr, join=lambda a, b: a | b)
        seen = {}
        for x, q in writes:
            st = state_before(cfg, ins, tr, x)
            if st is TOP:
                continue
            n += 1
            stale = sorted(cs[u][0] for u in by_dep[q] if cs[u][0] in st)
            ent = "%s: %s is written before anything computed from it is cached" % (short(m), q.split("::")[-1])
            seen[ent] = seen.get(ent, 0) + 1
            if seen[ent] > 1:
                ent += " #%d" % seen[ent]
            ctx.ob(rule, ent, not stale, m.loc(x),
                   "no lazily computed member that reads %s has been computed on a path to this write" % q.split("::")[-1] if not stale else
                   "%s has already been computed (from the old %s) on a path to this write and is never reset: it keeps describing "
                   "what the corpus held before" % (", ".join(s.split("::")[-1] for s in stale), q.split("::")[-1]))
    ctx.floor(rule, "writes of members that lazily computed members depend on", n, 2)
    return n
