"""C07 - harmless changes are filtered by default and shown with --harmless."""
from rules import cat_rules as cr


def run(ctx):
    ctx.clause = ("the harmless / harmful masks partition the category space, every category a categoriser assigns is "
                  "in its mask, the filter consults only the allowed mask, and the masks are switched off exactly "
                  "under !--harmless / --no-harmful")
    ctx.rules = ["R-CATPART", "R-OPTWIRE", "R-PEELTOTAL", "R-REDUNDUP"]
    P = ctx.program(cr.UNITS)
    cr.check_catpart(ctx, P)
    cr.check_optwire(ctx, P)
    check_peeltotal(ctx, P)
    check_redundup(ctx)
    ctx.assume("whether a particular change is classified harmless is the categorisers' runtime behaviour")



def check_redundup(ctx, rule="R-REDUNDUP"):
    """R-REDUNDUP: a harmless change is carried by a leaf of the diff tree; what makes the *interfaces* above it disappear
    from the default report is the upward rule of the redundancy pass (redundancy_marking_visitor::visit_end): a node that
    has no local change of its own and whose changed children are all not-to-be-reported is not reported either.  The
    function is interpreted in that world - `d` carries no category yet and no local change to report, every child that has
    changes answers false to to_be_reported(), whatever the reason (harmless category, suppression, redundancy): whenever
    the walk over the children met a changed child, `d` ends up in REDUNDANT_CATEGORY on every path.  A rule that asks the
    children for a *particular* reason leaves the parents of merely harmless changes category-less: they are printed, and
    abidiff exits 4 for a change the manual documents as filtered."""
    from engine.facts import walk, call_args, member_call_object, expr_str
    from engine.cfg import strip_casts
    from engine.compdb import AnalysisBroken
    from rules.world import World
    P = ctx.program(["src/abg-comparison.cc"])
    fs = [f for f in P.all_funcs() if f.n == "visit_end" and "redundancy_marking_visitor" in f.q and not f.dep and f.cfg() is not None and
          any(x["k"] == "CXXMemberCallExpr" and (f.decl(x) or {}).get("n") == "add_to_category" for x in f.nodes())]
    if len(fs) != 1:
        raise AnalysisBroken("anchor vanished: redundancy_marking_visitor::visit_end(diff*)")
    f = fs[0]
    ctx.analysed(f)
    d = f.r["params"][0]

    def on_d(e):
        o = strip_casts(member_call_object(e))
        return o is not None and o["k"] == "DeclRefExpr" and o.get("d") == d

    def atom(e):
        k = e["k"]
        if k == "MemberExpr" and (f.decl(e) or {}).get("n") == "skip_children_nodes_":
            return [False]
        if k == "BinaryOperator" and e.get("op") == "&" and any(
                y["k"] == "CXXMemberCallExpr" and (f.decl(y) or {}).get("n") == "get_category" and on_d(y) for y in walk(e["c"][0])):
            return [0]
        if k == "CXXMemberCallExpr":
            nm = (f.decl(e) or {}).get("n")
            if on_d(e):
                if nm == "has_local_changes_to_be_reported":
                    return [False]
                if nm == "has_changes":
                    return [True]
            else:
                if nm == "has_changes":
                    return [True]
                if nm == "to_be_reported":
                    return [False]
        return None

    def effect(e, env):
        if e["k"] == "CXXMemberCallExpr":
            nm = (f.decl(e) or {}).get("n")
            if nm == "has_changes" and not on_d(e):
                env[-1] = frozenset([True])
            if nm == "add_to_category" and on_d(e) and any(
                    y["k"] == "DeclRefExpr" and (f.decl(y) or {}).get("n") == "REDUNDANT_CATEGORY" for a in call_args(e) for y in walk(a)):
                env[-2] = frozenset([True])
    track = {x.get("d") for x in f.nodes() if x["k"] == "VarDecl" and (f.type(x) or {}).get("arith")}
    W = World(f, atom, effect)
    W.run_env(track)
    ends = W.exit_envs + [env for _, env in W.ret_envs]
    met = [env for env in ends if env.get(-1) == frozenset([True])]
    if not met:
        raise AnalysisBroken("anchor vanished: visit_end no longer walks the children of the node (has_changes())")
    bad = [env for env in met if env.get(-2) != frozenset([True])]
    ctx.ob(rule, "a node without local change whose changed children are all filtered out is marked redundant", not bad, f.loc(),
           "%d way(s) out of visit_end after a changed, not-to-be-reported child was met: REDUNDANT_CATEGORY added on all" % len(met) if not bad else
           "in the world where every changed child answers false to to_be_reported(), visit_end can end without "
           "add_to_category(REDUNDANT_CATEGORY) (%d of %d ways out): the upward rule asks the children for a particular reason, and "
           "the parents of merely harmless changes stay category-less - printed by default, exit status 4" % (len(bad), len(met)))


def check_peeltotal(ctx, P):
    """R-PEELTOTAL (who-may-call): libabigail represents `const volatile T` as two nested qualified_type_def nodes, so
    "the type without its top-level qualifiers" is only what the total peel helpers (peel_qualified_type,
    peel_qualified_or_typedef_type, ...) return.  In the harmless-change categorisers (namespace
    abigail::comparison::filtering) qualified_type_def::get_underlying_type() - one level - must not be called: a
    predicate built on it misses doubly qualified types and the change is no longer categorised as harmless."""
    from engine.facts import expr_str
    n_peel = 0
    for f in sorted(P.all_funcs(), key=lambda x: (x.file, x.l0)):
        if f.dep or not f.q.startswith("abigail::comparison::filtering::"):
            continue
        bad = []
        for n, d in f.calls():
            if d["n"].startswith("peel_"):
                n_peel += 1
            if d["n"] == "get_underlying_type" and (d.get("cls") or "").endswith("qualified_type_def"):
                bad.append(n)
        if bad:
            ctx.analysed(f)
            for i, n in enumerate(bad):
                ctx.ob("R-PEELTOTAL", "filtering::%s: the unqualified type is obtained with a total peel%s" % (
                    f.n, "" if i == 0 else " #%d" % (i + 1)), False, f.loc(n),
                    "`%s` removes one qualifier node only: for `const volatile T` it yields `const T`/`volatile T`, the "
                    "comparison with the other side's unqualified type fails and a top-level cv-qualifier change is no "
                    "longer filtered as harmless" % expr_str(f, n)[:70])
    ctx.ob("R-PEELTOTAL", "no categoriser peels a qualified type by one level", True, "",
           "%d call(s) of the total peel helpers in abigail::comparison::filtering, none of "
           "qualified_type_def::get_underlying_type()" % n_peel)
    ctx.floor("R-PEELTOTAL", "calls of the peel_* helpers in the categorisers", n_peel, 10)
