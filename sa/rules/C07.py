"""C07 - harmless changes are filtered by default and shown with --harmless."""
from rules import cat_rules as cr


def run(ctx):
    ctx.clause = ("the harmless / harmful masks partition the category space, every category a categoriser assigns is "
                  "in its mask, the filter consults only the allowed mask, and the masks are switched off exactly "
                  "under !--harmless / --no-harmful")
    ctx.rules = ["R-CATPART", "R-OPTWIRE"]
    P = ctx.program(cr.UNITS)
    cr.check_catpart(ctx, P)
    cr.check_optwire(ctx, P)
    ctx.assume("whether a particular change is classified harmless is the categorisers' runtime behaviour")
