"""C07 - harmless changes are filtered by default and shown with --harmless."""
from rules import cat_rules as cr


def run(ctx):
    ctx.clause = ("the harmless / harmful masks partition the category space, every category a categoriser assigns is "
                  "in its mask, the filter consults only the allowed mask, and the masks are switched off exactly "
                  "under !--harmless / --no-harmful")
    ctx.rules = ["R-CATPART", "R-OPTWIRE", "R-PEELTOTAL"]
    P = ctx.program(cr.UNITS)
    cr.check_catpart(ctx, P)
    cr.check_optwire(ctx, P)
    check_peeltotal(ctx, P)
    ctx.assume("whether a particular change is classified harmless is the categorisers' runtime behaviour")



def check_peeltotal(ctx, P):
    """R-PEELTOTAL (who-may-call): libabigail represents `const volatile T` as two nested qualified_type_def nodes, so
    "the type without its top-level qualifiers" is only what the total peel helpers (peel_qualified_type,
    peel_qualified_or_typedef_type, ...) return.  In the harmless-change categorisers (namespace
    abigail::comparison::filtering) qualified_type_def::get_underlying_type() - one level - must not be called: a
    predicate built on it misses doubly qualified types and the change is no longer categorised as harmless."""
    from engine.facts import expr_str
    n_peel = 0
    for f in sorted(P.all_funcs(), key=lambda x: (x.file, x.l0)):
        if f.dep or not f.q.startswith("abigail::comparison::filtering::"):
            continue
        bad = []
        for n, d in f.calls():
            if d["n"].startswith("peel_"):
                n_peel += 1
            if d["n"] == "get_underlying_type" and (d.get("cls") or "").endswith("qualified_type_def"):
                bad.append(n)
        if bad:
            ctx.analysed(f)
            for i, n in enumerate(bad):
                ctx.ob("R-PEELTOTAL", "filtering::%s: the unqualified type is obtained with a total peel%s" % (
                    f.n, "" if i == 0 else " #%d" % (i + 1)), False, f.loc(n),
                    "`%s` removes one qualifier node only: for `const volatile T` it yields `const T`/`volatile T`, the "
                    "comparison with the other side's unqualified type fails and a top-level cv-qualifier change is no "
                    "longer filtered as harmless" % expr_str(f, n)[:70])
    ctx.ob("R-PEELTOTAL", "no categoriser peels a qualified type by one level", True, "",
           "%d call(s) of the total peel helpers in abigail::comparison::filtering, none of "
           "qualified_type_def::get_underlying_type()" % n_peel)
    ctx.floor("R-PEELTOTAL", "calls of the peel_* helpers in the categorisers", n_peel, 10)
