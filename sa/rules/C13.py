"""C13 - leaf-change mode gives the same verdict as the default mode: R-MODEATOM.

The INCOMPATIBLE bit of the exit status is decided by corpus_diff::has_incompatible_changes(), one formula for both
report modes.  Its atoms are counters of diff_stats.  The two modes differ in what diff::is_filtered_out() answers
(the allowed-category mask: REDUNDANT, harmless categories, the leaf-only filter), so the bit is mode independent
only if no atom is computed under that filter.

R-MODEATOM  for every counter read by has_incompatible_changes() (net counters are expanded into their two halves)
            no store into that counter in corpus_diff::priv::apply_filters_and_compute_diff_stats is
            control-dependent on diff::is_filtered_out() / is_filtered_out_wrt_non_inherited_categories().
            Suppression-based halves (sizes of the suppressed_* sets) are mode independent.
R-SIMILARLEAF leaf mode only knows the diff nodes that leaf_diff_node_marker_visitor keeps; it drops the nodes of
            some kinds (pointer, reference, array ...: "a change of those makes no sense on its own"), so a difference
            that is proper to such a kind must surface as a *local* change of whatever refers to it.  Local-ness is
            decided by ir::types_have_similar_structure(first, second, indirect_type): in its arm for a kind whose
            diff nodes are dropped, every comparison of the kind's own attributes must be evaluated also when
            indirect_type is true (behind a pointer); otherwise the difference is a local change of nothing and the
            leaf report misses what the default report shows.
"""
from engine.cfg import strip_casts
from engine.facts import walk, call_args, member_call_object, expr_str
from engine.compdb import AnalysisBroken
from rules import atoms as at

UNITS = at.UNITS
FILTERS = ("is_filtered_out", "is_filtered_out_wrt_non_inherited_categories", "to_be_reported",
           "has_local_changes_to_be_reported")


def run(ctx):
    ctx.clause = ("no counter that decides the INCOMPATIBLE bit (corpus_diff::has_incompatible_changes) is computed under "
                  "the report-mode dependent filter diff::is_filtered_out()")
    ctx.rules = ["R-MODEATOM", "R-SIMILARLEAF", "R-SAMETYPELOCAL"]
    check_similarleaf(ctx)
    check_sametypelocal(ctx)
    P = ctx.program(UNITS)
    inc = P.fn1("abigail::comparison::corpus_diff::has_incompatible_changes")
    ctx.analysed(inc)
    pairs = at.netpairs(ctx, P)
    # counters read by the predicate
    getters = []
    for n in inc.nodes():
        if n["k"] == "CXXMemberCallExpr":
            d = inc.decl(n) or {}
            if (d.get("cls") or "").endswith("diff_stats") and not call_args(n):
                getters.append(d["n"])
    getters = sorted(set(getters))
    ctx.floor("R-MODEATOM", "diff_stats counters read by has_incompatible_changes", len(getters), 8)
    fields = {}
    for g in getters:
        if g in pairs and pairs[g][0]:
            a, b = pairs[g][0]
            fields[a] = g
            fields[b] = g
        else:
            fields[g] = g
    f = P.fn1("abigail::comparison::corpus_diff::priv::apply_filters_and_compute_diff_stats")
    ctx.analysed(f)
    n_store = 0
    seen = {}
    for n in f.nodes():
        if n["k"] != "CXXMemberCallExpr":
            continue
        d = f.decl(n) or {}
        if not (d.get("cls") or "").endswith("diff_stats") or d["n"] not in fields or not call_args(n):
            continue          # setters have one argument
        n_store += 1
        gate = None
        prev = n
        for a in f.ancestors(n):
            if a["k"] == "IfStmt":
                c = a["c"][0]
                hit = [x for x in walk(c) if x["k"] == "CXXMemberCallExpr" and (f.decl(x) or {}).get("n") in FILTERS]
                if hit:
                    gate = (a, hit[0], any(z["i"] == prev["i"] for z in walk(a["c"][1])) if a["c"][1] is not None else False)
                    break
            prev = a
        ent = "apply_filters_and_compute_diff_stats: %s() - an atom of has_incompatible_changes via %s() - is not fed under " \
              "is_filtered_out()" % (d["n"], fields[d["n"]])
        seen[ent] = seen.get(ent, 0) + 1
        if seen[ent] > 1:
            ent += " #%d" % seen[ent]
        ctx.ob("R-MODEATOM", ent, gate is None, f.loc(n),
               "the store does not depend on the report-mode filter" if gate is None else
               "the counter is incremented in the %s branch of `if (%s)`: what is_filtered_out() answers depends on the "
               "allowed categories (redundancy, harmless categories, leaf-only) - the default mode filters a vtable change "
               "as redundant and loses the INCOMPATIBLE bit that --leaf-changes-only reports" % (
                   "then" if gate[2] else "else", expr_str(f, gate[0]["c"][0])[:60]))
    ctx.floor("R-MODEATOM", "stores into atoms of has_incompatible_changes", n_store, 8)
    ctx.assume("the CHANGE bit comes from two different predicates (default_reporter / leaf_reporter::diff_has_net_changes) "
               "over different counters; that they agree is runtime behaviour of the leaf-node marking and is not decided; "
               "the impacted-interfaces clause is not decided either")



def check_sametypelocal(ctx, rule="R-SAMETYPELOCAL"):
    """R-SAMETYPELOCAL: leaf mode reports a class only if the comparison that found it different says the difference is
    *local* (change_kind LOCAL_TYPE_CHANGE_KIND); data-member diffs are not leaf nodes of their own.  Where an
    ir::equals(l, r, change_kind* k) overload finds two *data members* (var_decl) different (`**d0 != **d1`) and classifies the
    difference through their *types* ((*d0)->get_type(), (*d1)->get_type()), the two types may well be equal - the
    declarations then differ by offset, name or bit position - and that can only be a local change.  The branch is
    interpreted (helpers included) in the world "the two types are equal" (hence of similar structure): every path must
    OR the local kind into *k.  Otherwise a re-arrangement of members is a change of nothing for the leaf report while the
    default report shows it."""
    from rules.world import World, truth, ANY
    P = ctx.program(["src/abg-ir.cc"])
    eqs = [f for f in P.all_funcs() if f.q == "abigail::ir::equals" and not f.dep and f.cfg() is not None and
           any("change_kind" in ((f.unit.type(p["t"]) or {}).get("c", "")) for p in f.params() if p)]
    if len(eqs) < 10:
        raise AnalysisBroken("anchor vanished: ir::equals(l, r, change_kind*) overloads (%d found)" % len(eqs))
    local = None
    for u in P.units:
        for d in u.decls.values() if hasattr(u, "decls") else []:
            pass
    n = 0

    def mk_atom(g):
        def atom(e):
            k = e["k"]
            if k == "CallExpr" and (g.decl(e) or {}).get("n") == "types_have_similar_structure":
                return [True]
            if k in ("BinaryOperator", "CXXOperatorCallExpr") and e.get("op") in ("==", "!="):
                ops = call_args(e) if k == "CXXOperatorCallExpr" else e["c"]
                def typeish(o):
                    if any(y["k"] == "CXXMemberCallExpr" and (g.decl(y) or {}).get("n") == "get_type" for y in walk(o)):
                        return True
                    o0 = strip_casts(o)
                    t = g.type(o0) if o0 is not None else None
                    return o0 is not None and o0["k"] == "DeclRefExpr" and o0.get("d") in g.r["params"] and "type_base" in (t or {}).get("c", "")
                if len(ops) == 2 and all(typeish(o) for o in ops):
                    return [e["op"] == "=="]
            if k == "DeclRefExpr" and (g.decl(e) or {}).get("k") == "ParmVar" and "change_kind" in ((g.type(e) or {}).get("c", "")):
                return [True]
            if k == "CallExpr":
                h = P.funcs.get((g.decl(e) or {}).get("u"))
                if h is not None and not h.dep and h.cfg() is not None and "change_kind" in ((h.ret_type() or {}).get("c", "")) \
                        and h.u != g.u:
                    return sorted(World(h, mk_atom(h)).returns(), key=str)
            return None
        return atom

    def ored(f, W, s, acc):
        """list of sets of values OR-ed into *k along the paths of statement s"""
        if s is None:
            return [acc]
        k = s["k"]
        if k == "CompoundStmt":
            accs = [acc]
            for c in s.get("c", []):
                accs = [a2 for a in accs for a2 in ored(f, W, c, a)]
            return accs
        if k == "IfStmt":
            v = truth(W.ev(s["c"][0])) if s["c"][0] is not None else frozenset([True, False])
            out = []
            if True in v:
                out += ored(f, W, s["c"][1], acc)
            if False in v:
                out += ored(f, W, s["c"][2] if len(s["c"]) > 2 else None, acc)
            return out
        if k in ("CompoundAssignOperator", "CXXOperatorCallExpr") and s.get("op") == "|=":
            ops = call_args(s) if k == "CXXOperatorCallExpr" else s["c"]
            vals = W.ev(ops[-1])
            return [acc | {v} for v in vals]
        if k in ("ExprWithCleanups", "ParenExpr") and s.get("c"):
            return ored(f, W, s["c"][0], acc)
        return [acc]
    enumv = {}
    for f in eqs:
        for x in f.nodes():
            if x["k"] == "DeclRefExpr" and x.get("v") is not None and (f.decl(x) or {}).get("n") in ("LOCAL_TYPE_CHANGE_KIND", "SUBTYPE_CHANGE_KIND",
                                                                                                  "LOCAL_NON_TYPE_CHANGE_KIND", "LOCAL_CHANGE_MASK"):
                enumv[(f.decl(x) or {}).get("n")] = x["v"]
    if "LOCAL_TYPE_CHANGE_KIND" not in enumv:
        raise AnalysisBroken("anchor vanished: enumerator LOCAL_TYPE_CHANGE_KIND")
    LOCALS = {v for nme, v in enumv.items() if nme.startswith("LOCAL")}
    for f in sorted(eqs, key=lambda x: x.l0):
        W = World(f, mk_atom(f))
        for g in f.nodes():
            if g["k"] != "IfStmt" or g["c"][0] is None or g["c"][1] is None:
                continue
            c = strip_casts(g["c"][0])
            if c is None or c["k"] not in ("CXXOperatorCallExpr", "BinaryOperator") or c.get("op") != "!=":
                continue
            ops = call_args(c) if c["k"] == "CXXOperatorCallExpr" else c["c"]
            if len(ops) != 2:
                continue
            # the guard compares two declarations, the branch classifies through their get_type()
            roots = []
            for o in ops:
                ds = {y.get("d") for y in walk(o) if y["k"] == "DeclRefExpr" and (f.decl(y) or {}).get("k") in ("Var", "ParmVar")}
                roots.append(ds)
            if any(any(y["k"] == "CXXMemberCallExpr" and (f.decl(y) or {}).get("n") in ("get_type", "get_underlying_type", "get_pointed_to_type",
                                                                                         "get_return_type", "get_base_class", "get_element_type")
                       for y in walk(o)) for o in ops):
                continue                          # the guard already compares types
            # data members only: var_decl carries attributes of its own (offset, name, bit position) that can differ while
            # the type is the same; a parameter compared in lock-step has none (index and type decide)
            if not all("var_decl" in ((f.type(strip_casts(o)) or {}).get("c", "")) for o in ops):
                continue
            body = g["c"][1]
            gt = [y for y in walk(body) if y["k"] == "CXXMemberCallExpr" and (f.decl(y) or {}).get("n") == "get_type"]
            used = [{z.get("d") for z in walk(y) if z["k"] == "DeclRefExpr"} for y in gt]
            if not (roots[0] and roots[1] and any(u & roots[0] for u in used) and any(u & roots[1] for u in used)):
                continue
            if not any(y["k"] in ("CompoundAssignOperator", "CXXOperatorCallExpr") and y.get("op") == "|=" for y in walk(body)):
                continue
            n += 1
            ctx.analysed(f)
            paths = ored(f, W, body, frozenset())
            bad = [p for p in paths if not (p & LOCALS) and ANY not in p]
            sig = ", ".join((f.unit.type(p["t"]) or {}).get("s", "?") for p in f.params()[:1])
            ctx.ob(rule, "equals(%s): two declarations that differ while their types are equal are a local change" % sig.replace("const ", "").replace(" &", ""),
                   not bad, f.loc(g),
                   "in the world `the two types are equal` every path of the branch under `%s` ORs a local kind into *k" % expr_str(f, c)[:40] if not bad else
                   "under `%s`, with equal types, a path ORs only %s into *k: members that differ by offset, name or bit position "
                   "are then a sub-type change of an unchanged type - leaf mode reports nothing where the default mode reports the "
                   "class" % (expr_str(f, c)[:40], sorted(next(iter(bad))) or "nothing"))
    ctx.floor(rule, "declaration differences classified through the declarations' types", n, 1)


def check_similarleaf(ctx):
    from rules.world import World
    P = ctx.program(["src/abg-comparison.cc", "src/abg-ir.cc"])
    vs = [f for f in P.all_funcs() if not f.dep and f.n == "visit_begin" and "leaf_diff_node_marker_visitor" in f.q]
    if len(vs) != 1:
        raise AnalysisBroken("anchor vanished: leaf_diff_node_marker_visitor::visit_begin")
    v = vs[0]
    ctx.analysed(v)
    dropped = set()
    for n in v.nodes():
        if n["k"] == "UnaryOperator" and n.get("op") == "!":
            c = strip_casts(n["c"][0])
            while c is not None and c["k"] in ("ImplicitCastExpr", "CXXMemberCallExpr") and c["k"] != "CallExpr":
                # shared_ptr / pointer to bool conversions around the call
                inner = [x for x in walk(c) if x["k"] == "CallExpr"]
                c = inner[0] if inner else None
            if c is not None and c["k"] == "CallExpr":
                nm = (v.decl(c) or {}).get("n", "")
                if nm.startswith("is_") and nm.endswith("_diff"):
                    dropped.add(nm[3:-5])
    if len(dropped) < 3:
        raise AnalysisBroken("anchor vanished: the leaf marker no longer excludes diff kinds with !is_X_diff(d)")
    fs = [f for f in P.fn("abigail::ir::types_have_similar_structure") if not f.dep and f.cfg() is not None and
          any(x["k"] == "IfStmt" and x.get("var") for x in f.nodes())]
    if len(fs) != 1:
        raise AnalysisBroken("anchor vanished: ir::types_have_similar_structure(const type_base*, const type_base*, bool)")
    f = fs[0]
    ctx.analysed(f)
    ip = [p for p in f.r["params"] if (f.unit.decl(p) or {}).get("n") == "indirect_type"]
    if not ip:
        raise AnalysisBroken("anchor vanished: parameter indirect_type of types_have_similar_structure")
    ip = ip[0]

    def world(val):
        def atom(e):
            if e["k"] == "DeclRefExpr" and e.get("d") == ip:
                return [val]
            return None
        W = World(f, atom)
        seen, _ = W.blocks()
        cfg = f.cfg()
        return {e["i"] for b in seen for e in cfg.blocks[b].elems}
    reach_t = world(True)
    n_arm = n_cmp = 0
    for arm in f.nodes():
        if arm["k"] != "IfStmt" or not arm.get("var"):
            continue
        var = arm["var"]
        calls = [x for x in walk(var) if x["k"] == "CallExpr" and (f.decl(x) or {}).get("n", "").startswith("is_")]
        if not calls:
            continue
        pred = (f.decl(calls[0]) or {}).get("n")            # is_pointer_type, is_array_type ...
        stem = pred[3:]
        for suf in ("_type", "_decl"):
            if stem.endswith(suf):
                stem = stem[:-len(suf)]
        if stem not in dropped:
            continue
        n_arm += 1
        v1 = var.get("d")
        then = arm["c"][1] if len(arm["c"]) > 1 else None
        if then is None:
            continue
        v2 = {x.get("d") for x in walk(then) if x["k"] == "VarDecl" and x.get("c") and x["c"][0] is not None and
              any(y["k"] == "CallExpr" and (f.decl(y) or {}).get("n") == pred for y in walk(x["c"][0]))}
        for c in walk(then):
            if c["k"] in ("BinaryOperator", "CXXOperatorCallExpr") and c.get("op") in ("==", "!="):
                a = call_args(c) if c["k"] == "CXXOperatorCallExpr" else c["c"]
                sides = []
                for s_ in a:
                    s0 = strip_casts(s_)
                    if s0 is not None and s0["k"] == "CXXMemberCallExpr":
                        o = [y for y in walk(member_call_object(s0)) if y["k"] == "DeclRefExpr"]
                        sides.append(((f.decl(s0) or {}).get("n"), o[-1].get("d") if o else None))
                if len(sides) == 2 and sides[0][0] == sides[1][0] and {sides[0][1], sides[1][1]} == ({v1} | v2) and len(v2) == 1:
                    n_cmp += 1
                    ok = c["i"] in reach_t
                    ctx.ob("R-SIMILARLEAF", "types_have_similar_structure: %s of two %s types is compared behind a pointer too" % (
                        sides[0][0], stem), ok, f.loc(c), "`%s` is evaluated when indirect_type is true" % expr_str(f, c)[:70] if ok else
                        "`%s` is skipped when indirect_type is true, but %s_diff nodes are not leaf candidates "
                        "(leaf_diff_node_marker_visitor): a difference in %s behind a pointer is then nobody's local change and "
                        "--leaf-changes-only reports nothing where the default mode reports a change" % (
                            expr_str(f, c)[:70], stem, sides[0][0]))
    ctx.floor("R-SIMILARLEAF", "arms of kinds whose diff nodes are not leaf candidates", n_arm, 3)
    ctx.floor("R-SIMILARLEAF", "own-attribute comparisons in those arms", n_cmp, 3)
