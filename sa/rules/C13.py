"""C13 - leaf-change mode gives the same verdict as the default mode: R-MODEATOM.

The INCOMPATIBLE bit of the exit status is decided by corpus_diff::has_incompatible_changes(), one formula for both
report modes.  Its atoms are counters of diff_stats.  The two modes differ in what diff::is_filtered_out() answers
(the allowed-category mask: REDUNDANT, harmless categories, the leaf-only filter), so the bit is mode independent
only if no atom is computed under that filter.

R-MODEATOM  for every counter read by has_incompatible_changes() (net counters are expanded into their two halves)
            no store into that counter in corpus_diff::priv::apply_filters_and_compute_diff_stats is
            control-dependent on diff::is_filtered_out() / is_filtered_out_wrt_non_inherited_categories().
            Suppression-based halves (sizes of the suppressed_* sets) are mode independent.
R-SIMILARLEAF leaf mode only knows the diff nodes that leaf_diff_node_marker_visitor keeps; it drops the nodes of
            some kinds (pointer, reference, array ...: "a change of those makes no sense on its own"), so a difference
            that is proper to such a kind must surface as a *local* change of whatever refers to it.  Local-ness is
            decided by ir::types_have_similar_structure(first, second, indirect_type): in its arm for a kind whose
            diff nodes are dropped, every comparison of the kind's own attributes must be evaluated also when
            indirect_type is true (behind a pointer); otherwise the difference is a local change of nothing and the
            leaf report misses what the default report shows.
"""
from engine.cfg import strip_casts
from engine.facts import walk, call_args, member_call_object, expr_str
from engine.compdb import AnalysisBroken
from rules import atoms as at

UNITS = at.UNITS
FILTERS = ("is_filtered_out", "is_filtered_out_wrt_non_inherited_categories", "to_be_reported",
           "has_local_changes_to_be_reported")


def run(ctx):
    ctx.clause = ("no counter that decides the INCOMPATIBLE bit (corpus_diff::has_incompatible_changes) is computed under "
                  "the report-mode dependent filter diff::is_filtered_out()")
    ctx.rules = ["R-MODEATOM", "R-SIMILARLEAF"]
    check_similarleaf(ctx)
    P = ctx.program(UNITS)
    inc = P.fn1("abigail::comparison::corpus_diff::has_incompatible_changes")
    ctx.analysed(inc)
    pairs = at.netpairs(ctx, P)
    # counters read by the predicate
    getters = []
    for n in inc.nodes():
        if n["k"] == "CXXMemberCallExpr":
            d = inc.decl(n) or {}
            if (d.get("cls") or "").endswith("diff_stats") and not call_args(n):
                getters.append(d["n"])
    getters = sorted(set(getters))
    ctx.floor("R-MODEATOM", "diff_stats counters read by has_incompatible_changes", len(getters), 8)
    fields = {}
    for g in getters:
        if g in pairs and pairs[g][0]:
            a, b = pairs[g][0]
            fields[a] = g
            fields[b] = g
        else:
            fields[g] = g
    f = P.fn1("abigail::comparison::corpus_diff::priv::apply_filters_and_compute_diff_stats")
    ctx.analysed(f)
    n_store = 0
    seen = {}
    for n in f.nodes():
        if n["k"] != "CXXMemberCallExpr":
            continue
        d = f.decl(n) or {}
        if not (d.get("cls") or "").endswith("diff_stats") or d["n"] not in fields or not call_args(n):
            continue          # setters have one argument
        n_store += 1
        gate = None
        prev = n
        for a in f.ancestors(n):
            if a["k"] == "IfStmt":
                c = a["c"][0]
                hit = [x for x in walk(c) if x["k"] == "CXXMemberCallExpr" and (f.decl(x) or {}).get("n") in FILTERS]
                if hit:
                    gate = (a, hit[0], any(z["i"] == prev["i"] for z in walk(a["c"][1])) if a["c"][1] is not None else False)
                    break
            prev = a
        ent = "apply_filters_and_compute_diff_stats: %s() - an atom of has_incompatible_changes via %s() - is not fed under " \
              "is_filtered_out()" % (d["n"], fields[d["n"]])
        seen[ent] = seen.get(ent, 0) + 1
        if seen[ent] > 1:
            ent += " #%d" % seen[ent]
        ctx.ob("R-MODEATOM", ent, gate is None, f.loc(n),
               "the store does not depend on the report-mode filter" if gate is None else
               "the counter is incremented in the %s branch of `if (%s)`: what is_filtered_out() answers depends on the "
               "allowed categories (redundancy, harmless categories, leaf-only) - the default mode filters a vtable change "
               "as redundant and loses the INCOMPATIBLE bit that --leaf-changes-only reports" % (
                   "then" if gate[2] else "else", expr_str(f, gate[0]["c"][0])[:60]))
    ctx.floor("R-MODEATOM", "stores into atoms of has_incompatible_changes", n_store, 8)
    ctx.assume("the CHANGE bit comes from two different predicates (default_reporter / leaf_reporter::diff_has_net_changes) "
               "over different counters; that they agree is runtime behaviour of the leaf-node marking and is not decided; "
               "the impacted-interfaces clause is not decided either")



def check_similarleaf(ctx):
    from rules.world import World
    P = ctx.program(["src/abg-comparison.cc", "src/abg-ir.cc"])
    vs = [f for f in P.all_funcs() if not f.dep and f.n == "visit_begin" and "leaf_diff_node_marker_visitor" in f.q]
    if len(vs) != 1:
        raise AnalysisBroken("anchor vanished: leaf_diff_node_marker_visitor::visit_begin")
    v = vs[0]
    ctx.analysed(v)
    dropped = set()
    for n in v.nodes():
        if n["k"] == "UnaryOperator" and n.get("op") == "!":
            c = strip_casts(n["c"][0])
            while c is not None and c["k"] in ("ImplicitCastExpr", "CXXMemberCallExpr") and c["k"] != "CallExpr":
                # shared_ptr / pointer to bool conversions around the call
                inner = [x for x in walk(c) if x["k"] == "CallExpr"]
                c = inner[0] if inner else None
            if c is not None and c["k"] == "CallExpr":
                nm = (v.decl(c) or {}).get("n", "")
                if nm.startswith("is_") and nm.endswith("_diff"):
                    dropped.add(nm[3:-5])
    if len(dropped) < 3:
        raise AnalysisBroken("anchor vanished: the leaf marker no longer excludes diff kinds with !is_X_diff(d)")
    fs = [f for f in P.fn("abigail::ir::types_have_similar_structure") if not f.dep and f.cfg() is not None and
          any(x["k"] == "IfStmt" and x.get("var") for x in f.nodes())]
    if len(fs) != 1:
        raise AnalysisBroken("anchor vanished: ir::types_have_similar_structure(const type_base*, const type_base*, bool)")
    f = fs[0]
    ctx.analysed(f)
    ip = [p for p in f.r["params"] if (f.unit.decl(p) or {}).get("n") == "indirect_type"]
    if not ip:
        raise AnalysisBroken("anchor vanished: parameter indirect_type of types_have_similar_structure")
    ip = ip[0]

    def world(val):
        def atom(e):
            if e["k"] == "DeclRefExpr" and e.get("d") == ip:
                return [val]
            return None
        W = World(f, atom)
        seen, _ = W.blocks()
        cfg = f.cfg()
        return {e["i"] for b in seen for e in cfg.blocks[b].elems}
    reach_t = world(True)
    n_arm = n_cmp = 0
    for arm in f.nodes():
        if arm["k"] != "IfStmt" or not arm.get("var"):
            continue
        var = arm["var"]
        calls = [x for x in walk(var) if x["k"] == "CallExpr" and (f.decl(x) or {}).get("n", "").startswith("is_")]
        if not calls:
            continue
        pred = (f.decl(calls[0]) or {}).get("n")            # is_pointer_type, is_array_type ...
        stem = pred[3:]
        for suf in ("_type", "_decl"):
            if stem.endswith(suf):
                stem = stem[:-len(suf)]
        if stem not in dropped:
            continue
        n_arm += 1
        v1 = var.get("d")
        then = arm["c"][1] if len(arm["c"]) > 1 else None
        if then is None:
            continue
        v2 = {x.get("d") for x in walk(then) if x["k"] == "VarDecl" and x.get("c") and x["c"][0] is not None and
              any(y["k"] == "CallExpr" and (f.decl(y) or {}).get("n") == pred for y in walk(x["c"][0]))}
        for c in walk(then):
            if c["k"] in ("BinaryOperator", "CXXOperatorCallExpr") and c.get("op") in ("==", "!="):
                a = call_args(c) if c["k"] == "CXXOperatorCallExpr" else c["c"]
                sides = []
                for s_ in a:
                    s0 = strip_casts(s_)
                    if s0 is not None and s0["k"] == "CXXMemberCallExpr":
                        o = [y for y in walk(member_call_object(s0)) if y["k"] == "DeclRefExpr"]
                        sides.append(((f.decl(s0) or {}).get("n"), o[-1].get("d") if o else None))
                if len(sides) == 2 and sides[0][0] == sides[1][0] and {sides[0][1], sides[1][1]} == ({v1} | v2) and len(v2) == 1:
                    n_cmp += 1
                    ok = c["i"] in reach_t
                    ctx.ob("R-SIMILARLEAF", "types_have_similar_structure: %s of two %s types is compared behind a pointer too" % (
                        sides[0][0], stem), ok, f.loc(c), "`%s` is evaluated when indirect_type is true" % expr_str(f, c)[:70] if ok else
                        "`%s` is skipped when indirect_type is true, but %s_diff nodes are not leaf candidates "
                        "(leaf_diff_node_marker_visitor): a difference in %s behind a pointer is then nobody's local change and "
                        "--leaf-changes-only reports nothing where the default mode reports a change" % (
                            expr_str(f, c)[:70], stem, sides[0][0]))
    ctx.floor("R-SIMILARLEAF", "arms of kinds whose diff nodes are not leaf candidates", n_arm, 3)
    ctx.floor("R-SIMILARLEAF", "own-attribute comparisons in those arms", n_cmp, 3)
