"""C13 - leaf-change mode gives the same verdict as the default mode: R-MODEATOM.

The INCOMPATIBLE bit of the exit status is decided by corpus_diff::has_incompatible_changes(), one formula for both
report modes.  Its atoms are counters of diff_stats.  The two modes differ in what diff::is_filtered_out() answers
(the allowed-category mask: REDUNDANT, harmless categories, the leaf-only filter), so the bit is mode independent
only if no atom is computed under that filter.

R-MODEATOM  for every counter read by has_incompatible_changes() (net counters are expanded into their two halves)
            no store into that counter in corpus_diff::priv::apply_filters_and_compute_diff_stats is
            control-dependent on diff::is_filtered_out() / is_filtered_out_wrt_non_inherited_categories().
            Suppression-based halves (sizes of the suppressed_* sets) are mode independent.
"""
from engine.cfg import strip_casts
from engine.facts import walk, call_args, member_call_object, expr_str
from engine.compdb import AnalysisBroken
from rules import atoms as at

UNITS = at.UNITS
FILTERS = ("is_filtered_out", "is_filtered_out_wrt_non_inherited_categories", "to_be_reported",
           "has_local_changes_to_be_reported")


def run(ctx):
    ctx.clause = ("no counter that decides the INCOMPATIBLE bit (corpus_diff::has_incompatible_changes) is computed under "
                  "the report-mode dependent filter diff::is_filtered_out()")
    ctx.rules = ["R-MODEATOM"]
    P = ctx.program(UNITS)
    inc = P.fn1("abigail::comparison::corpus_diff::has_incompatible_changes")
    ctx.analysed(inc)
    pairs = at.netpairs(ctx, P)
    # counters read by the predicate
    getters = []
    for n in inc.nodes():
        if n["k"] == "CXXMemberCallExpr":
            d = inc.decl(n) or {}
            if (d.get("cls") or "").endswith("diff_stats") and not call_args(n):
                getters.append(d["n"])
    getters = sorted(set(getters))
    ctx.floor("R-MODEATOM", "diff_stats counters read by has_incompatible_changes", len(getters), 8)
    fields = {}
    for g in getters:
        if g in pairs and pairs[g][0]:
            a, b = pairs[g][0]
            fields[a] = g
            fields[b] = g
        else:
            fields[g] = g
    f = P.fn1("abigail::comparison::corpus_diff::priv::apply_filters_and_compute_diff_stats")
    ctx.analysed(f)
    n_store = 0
    seen = {}
    for n in f.nodes():
        if n["k"] != "CXXMemberCallExpr":
            continue
        d = f.decl(n) or {}
        if not (d.get("cls") or "").endswith("diff_stats") or d["n"] not in fields or not call_args(n):
            continue          # setters have one argument
        n_store += 1
        gate = None
        prev = n
        for a in f.ancestors(n):
            if a["k"] == "IfStmt":
                c = a["c"][0]
                hit = [x for x in walk(c) if x["k"] == "CXXMemberCallExpr" and (f.decl(x) or {}).get("n") in FILTERS]
                if hit:
                    gate = (a, hit[0], any(z["i"] == prev["i"] for z in walk(a["c"][1])) if a["c"][1] is not None else False)
                    break
            prev = a
        ent = "apply_filters_and_compute_diff_stats: %s() - an atom of has_incompatible_changes via %s() - is not fed under " \
              "is_filtered_out()" % (d["n"], fields[d["n"]])
        seen[ent] = seen.get(ent, 0) + 1
        if seen[ent] > 1:
            ent += " #%d" % seen[ent]
        ctx.ob("R-MODEATOM", ent, gate is None, f.loc(n),
               "the store does not depend on the report-mode filter" if gate is None else
               "the counter is incremented in the %s branch of `if (%s)`: what is_filtered_out() answers depends on the "
               "allowed categories (redundancy, harmless categories, leaf-only) - the default mode filters a vtable change "
               "as redundant and loses the INCOMPATIBLE bit that --leaf-changes-only reports" % (
                   "then" if gate[2] else "else", expr_str(f, gate[0]["c"][0])[:60]))
    ctx.floor("R-MODEATOM", "stores into atoms of has_incompatible_changes", n_store, 8)
    ctx.assume("the CHANGE bit comes from two different predicates (default_reporter / leaf_reporter::diff_has_net_changes) "
               "over different counters; that they agree is runtime behaviour of the leaf-node marking and is not decided; "
               "the impacted-interfaces clause is not decided either")
