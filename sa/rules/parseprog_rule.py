"""R-PARSEPROG: a parse loop of the INI reader does not carry on at the same input position after its sub-parsers declined.

The reader (abigail::ini::read_context) is a hand-written recursive-descent parser over one stream.  Its only primitive
that moves the stream is read_context::get(); peek()/good()/eof() look at it.  From the source:

  consumers     get, and every method all of whose paths pass a call to a consumer before returning
                (read_next_char, skip_line ...): after one of these calls the stream has moved or is no longer good()
  sub-parsers   the other read_* methods that report failure through their result (false / null pointer)

For every loop that calls a sub-parser the rule explores the finite world in which each sub-parser call *inside that
loop* declines (returns false / null, the locals that receive its result being followed through the later tests) and
every other condition is free.  In that world, a cycle of the loop that passes no consumer leaves the stream exactly
where it was: the declined sub-parsers did not need to move it, peek()/good() answer as before, and the next iteration
repeats the previous one - the tool hangs on that input.  Every such cycle is reported with the sub-parser whose verdict
is ignored.
"""
from engine.cfg import strip_casts
from engine.facts import walk, call_args, member_call_object, expr_str
from engine.compdb import AnalysisBroken
from rules.world import World, UNK
from rules.null_rules import short

READER = "abigail::ini::read_context"


def _callee(P, f, e):
    if e["k"] not in ("CXXMemberCallExpr", "CallExpr"):
        return None
    return P.funcs.get((f.decl(e) or {}).get("u"))


def _ret(f):
    t = f.unit.type(f.r["ret"]) if f.r.get("ret") else None
    return _ts(t)


def _ts(t):
    if isinstance(t, dict):
        return ("%s %s" % (t.get("s") or "", t.get("c") or "")).strip() if t.get("s") != "bool" else "bool"
    return (t or "").strip()


def consumers(P):
    fs = [f for f in P.all_funcs() if f.cls == READER and not f.dep and f.cfg() is not None]
    base = [f for f in fs if f.n == "get"]
    if len(base) != 1:
        raise AnalysisBroken("anchor vanished: %s::get" % READER)
    g = base[0]
    names = {(g.decl(x) or {}).get("n") for x in g.nodes() if x["k"] == "CXXMemberCallExpr"}
    if not {"get", "pop_back"} <= names:
        raise AnalysisBroken("anchor vanished: %s::get no longer takes a character from the stream or the put-back buffer" % READER)
    cons = {g.u}
    changed = True
    while changed:
        changed = False
        for f in fs:
            if f.u in cons:
                continue
            W = World(f, lambda e: None)
            if W.must_pass(lambda e, f=f: (_callee(P, f, e) or f).u in cons and _callee(P, f, e) is not None):
                cons.add(f.u)
                changed = True
    return fs, cons


def check(ctx, P, rule="R-PARSEPROG"):
    fs, cons = consumers(P)
    ctx.note("%s: consumers of the INI reader derived from the source: %s" % (
        rule, ", ".join(sorted(P.funcs[u].n for u in cons))))
    subp = {f.u for f in fs if f.n.startswith("read_") and f.u not in cons and
            (_ret(f) == "bool" or "shared_ptr" in _ret(f) or "_sptr" in _ret(f))}
    if len(subp) < 8:
        raise AnalysisBroken("anchor vanished: sub-parsers of %s (%d found)" % (READER, len(subp)))
    users = [f for f in P.all_funcs() if not f.dep and f.cfg() is not None and f.relfile.endswith("src/abg-ini.cc") and
             any((_callee(P, f, x) or f).u in subp and _callee(P, f, x) is not None for x in f.nodes())]
    n = 0
    for f in sorted(users, key=lambda x: x.l0):
        loops = [x for x in f.nodes() if x["k"] in ("WhileStmt", "ForStmt", "DoStmt")]
        for L in loops:
            inside = {y["i"] for y in walk(L)}
            calls = [y for y in walk(L) if _callee(P, f, y) is not None and _callee(P, f, y).u in subp]
            if not calls:
                continue
            ctx.analysed(f)
            n += 1
            bad = no_progress_cycle(P, f, L, inside, {c["i"] for c in calls}, cons)
            names = sorted({_callee(P, f, c).n for c in calls})
            ent = "%s: loop at line %s over %s" % (short(f), "", "/".join(names))
            ent = "%s: the loop that calls %s" % (short(f), "/".join(names))
            ctx.ob(rule, ent, bad is None, f.loc(L),
                   "when %s decline%s, every way round the loop passes a consumer (%s) or leaves the loop" % (
                       "/".join(names), "s" if len(names) == 1 else "",
                       ", ".join(sorted({P.funcs[u].n for u in cons}))) if bad is None else
                   "when %s decline%s without moving the stream, the loop can go round through %s without passing any "
                   "consumer (%s): peek()/good() answer as before and the same iteration repeats for ever - the reader hangs "
                   "on that input" % ("/".join(names), "s" if len(names) == 1 else "", bad,
                                      ", ".join(sorted({P.funcs[u].n for u in cons}))))
    return n


def no_progress_cycle(P, f, L, inside, fail_calls, cons):
    """None, or a description of a cycle inside loop L that passes no consumer in the world where the sub-parser calls of L fail"""
    cfg = f.cfg()
    track = set()
    for x in f.nodes():
        if x["k"] == "VarDecl" and x.get("d") is not None:
            t = _ts(f.type(x))
            if "shared_ptr" in t or "_sptr" in t or t == "bool":
                track.add(x["d"])
    env_box = [{}]

    def atom(e):
        if e["i"] in fail_calls:
            callee = _callee(P, f, e)
            return [False] if _ret(callee) == "bool" else [None]
        if e["k"] == "DeclRefExpr" and e.get("d") in track and e.get("d") in env_box[0]:
            return env_box[0][e["d"]]
        return None
    W = World(f, atom)
    in_blocks = set()
    for b, blk in cfg.blocks.items():
        if (blk.term is not None and blk.term["i"] == L["i"]) or any(e["i"] in inside for e in blk.elems):
            in_blocks.add(b)
    has_cons = {}
    for b, blk in cfg.blocks.items():
        has_cons[b] = any(_callee(P, f, e) is not None and _callee(P, f, e).u in cons for e in blk.elems)
    # state graph over (block, environment)
    edges = {}
    seen = set()
    stack = [(cfg.entry, ())]
    steps = 0
    while stack:
        b, envt = stack.pop()
        if (b, envt) in seen or b not in cfg.blocks:
            continue
        seen.add((b, envt))
        steps += 1
        if steps > 50000:
            raise AnalysisBroken("R-PARSEPROG: state space of %s too large" % f.sig)
        env = dict(envt)
        env_box[0] = env
        blk = cfg.blocks[b]
        ended = False
        for e in blk.elems:
            if e["k"] == "VarDecl" and e.get("d") in track:
                env[e["d"]] = W.ev(e["c"][0]) if e.get("c") and e["c"][0] is not None else UNK
            elif e["k"] in ("BinaryOperator", "CXXOperatorCallExpr") and e.get("op") == "=":
                a = call_args(e) if e["k"] == "CXXOperatorCallExpr" else e["c"]
                l = strip_casts(a[0])
                if l is not None and l["k"] == "DeclRefExpr" and l.get("d") in track:
                    env[l["d"]] = W.ev(a[1])
            elif e["k"] in ("CXXMemberCallExpr",) and (f.decl(e) or {}).get("n") == "reset":
                o = strip_casts(member_call_object(e))
                if o is not None and o["k"] == "DeclRefExpr" and o.get("d") in track:
                    env[o["d"]] = UNK
            elif e["k"] == "ReturnStmt":
                ended = True
                break
        if ended or blk.noret:
            continue
        envt2 = tuple(sorted(env.items(), key=lambda kv: kv[0]))
        for s in W.feasible_succs(b):
            if s is None:
                continue
            edges.setdefault((b, envt), []).append((s, envt2))
            stack.append((s, envt2))
    # cycles among the states of blocks without a consumer, touching the loop
    nodes = [st for st in seen if not has_cons[st[0]]]
    ok = set(nodes)
    color = {}
    for start in nodes:
        if start[0] not in in_blocks or color.get(start) == 2:
            continue
        # iterative DFS looking for a back edge
        path = []
        stack2 = [(start, iter(edges.get(start, [])))]
        color[start] = 1
        path.append(start)
        while stack2:
            st, it = stack2[-1]
            adv = False
            for nx in it:
                if nx not in ok:
                    continue
                c = color.get(nx, 0)
                if c == 1:
                    cyc = path[path.index(nx):]
                    if any(x[0] in in_blocks for x in cyc):
                        lines = sorted({e.get("l") for x in cyc for e in cfg.blocks[x[0]].elems if e.get("l")})
                        return "lines %s" % ", ".join(str(l) for l in lines) if lines else "its empty blocks"
                    continue
                if c == 0:
                    color[nx] = 1
                    path.append(nx)
                    stack2.append((nx, iter(edges.get(nx, []))))
                    adv = True
                    break
            if not adv:
                color[st] = 2
                path.pop()
                stack2.pop()
    return None
