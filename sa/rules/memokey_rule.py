"""R-MEMOKEY: a memoised result must be keyed by everything it depends on.

Pattern (the repo's own lazy idiom, `if (!cache_) cache_ = compute(); return cache_;`): a member function whose
result is a data member R, filled inside `if (!G) { ... }` where G is a data member (R itself or a flag) that the
then-branch also sets.  If the computation in that branch reads a *parameter* of the function, the value stored the
first time is returned for every later argument: the cache must be keyed by that parameter (a map looked up with it,
or a guard that mentions it).  The regex getters of the suppression classes compute from members only and pass.
"""
from engine.cfg import strip_casts
from engine.facts import walk, call_args, member_call_object, expr_str
from rules.null_rules import short


def _field_of(f, e):
    e = strip_casts(e)
    while e is not None:
        if e["k"] == "CXXMemberCallExpr" and (f.decl(e) or {}).get("n") in ("get", "operator bool", "empty", "size"):
            e = strip_casts(member_call_object(e))
        elif e["k"] in ("CXXConstructExpr", "ExprWithCleanups", "CXXBindTemporaryExpr", "MaterializeTemporaryExpr",
                        "ImplicitCastExpr") and len(call_args(e) if e["k"] == "CXXConstructExpr" else e.get("c", [])) == 1:
            e = strip_casts((call_args(e) if e["k"] == "CXXConstructExpr" else e["c"])[0])
        else:
            break
    if e is not None and e["k"] == "MemberExpr" and (f.decl(e) or {}).get("k") == "Field":
        return f.decl(e)["n"]
    return None


def check(ctx, P, funcs, rule="R-MEMOKEY"):
    n_cand = 0
    for f in sorted(funcs, key=lambda x: (x.file, x.l0)):
        if f.dep or not f.cls or f.cfg() is None:
            continue
        params = set(f.r["params"])
        rets = {_field_of(f, r["c"][0]) for r in f.nodes() if r["k"] == "ReturnStmt" and r.get("c")}
        rets.discard(None)
        if not rets:
            continue
        for n in f.nodes():
            if n["k"] != "IfStmt" or n["c"][1] is None:
                continue
            def conjuncts(e):
                e = strip_casts(e)
                if e is not None and e["k"] == "BinaryOperator" and e.get("op") == "&&":
                    return conjuncts(e["c"][0]) + conjuncts(e["c"][1])
                return [e] if e is not None else []
            guards = []
            for c in conjuncts(n["c"][0]):
                if c["k"] in ("UnaryOperator", "CXXOperatorCallExpr") and c.get("op") == "!":
                    g_ = _field_of(f, c["c"][-1])
                    if g_:
                        guards.append(g_)
            if not guards:
                continue
            then = n["c"][1]
            stored = set()
            for x in walk(then):
                if x["k"] in ("BinaryOperator", "CXXOperatorCallExpr") and x.get("op") == "=":
                    l = call_args(x)[0] if x["k"] == "CXXOperatorCallExpr" else x["c"][0]
                    fl = _field_of(f, l)
                    if fl:
                        stored.add(fl)
                if x["k"] == "CXXMemberCallExpr" and (f.decl(x) or {}).get("n") in ("reset", "push_back", "insert", "emplace_back", "assign"):
                    fl = _field_of(f, member_call_object(x))
                    if fl:
                        stored.add(fl)
            guard = next((g_ for g_ in guards if g_ in stored), None)
            if guard is None or not (stored & rets):
                continue
            n_cand += 1
            ctx.analysed(f)
            used = sorted({f.unit.decl(x["d"])["n"] for x in walk(then) if x["k"] == "DeclRefExpr" and x.get("d") in params})
            # keyed: the guard (or an enclosing condition) mentions the parameter
            keyed = any(x["k"] == "DeclRefExpr" and x.get("d") in params for x in walk(n["c"][0]))
            ok = not used or keyed
            ctx.ob(rule, "%s: the value memoised under `!%s` depends on members only" % (short(f), guard), ok, f.loc(n),
                   "computed from data members (no parameter is read in the filling branch)" if not used else
                   "keyed by the parameter" if keyed else
                   "the branch that fills `%s` reads the parameter(s) %s, but the guard `!%s` does not: the value computed "
                   "for the first argument is returned for every later one" % (sorted(stored & rets)[0], used, guard))
    return n_cand


def check_memoparam(ctx, P, funcs, rule="R-MEMOKEY"):
    """Path form of R-MEMOKEY (whatever the shape of the guard): a member function that takes parameters returns a data
    member R; R is written in the function on a path that has read a parameter; and some `return R` is reachable without
    any parameter having been read and without R having been written on the way (a cached return whose guard cannot depend
    on the argument).  The value computed for the first argument is then handed out for every later one."""
    from engine.cfg import forward, state_before, TOP
    n_cand = 0
    for f in sorted(funcs, key=lambda x: (x.file, x.l0)):
        if f.dep or not f.cls or f.cfg() is None or not f.r["params"]:
            continue
        params = set(f.r["params"])
        rets = [(r, _field_of(f, r["c"][0])) for r in f.nodes() if r["k"] == "ReturnStmt" and r.get("c") and r["c"][0] is not None]
        fields = {fl for _, fl in rets if fl}
        if not fields:
            continue

        def writes_field(e, fl):
            if e["k"] in ("BinaryOperator", "CXXOperatorCallExpr") and e.get("op") == "=":
                l = call_args(e)[0] if e["k"] == "CXXOperatorCallExpr" else e["c"][0]
                if _field_of(f, l) == fl:
                    return True
            if e["k"] == "CXXMemberCallExpr" and (f.decl(e) or {}).get("n") in ("reset", "push_back", "insert", "emplace_back", "assign", "emplace"):
                if _field_of(f, member_call_object(e)) == fl:
                    return True
            return False
        for fl in sorted(fields):
            def tr(st, e, blk):
                if e["k"] == "DeclRefExpr" and e.get("d") in params:
                    st = st | {"p"}
                if writes_field(e, fl):
                    st = st | {"w"} | ({"wp"} if "p" in st else set())
                return st
            cfg = f.cfg()
            # may-analysis for "written after a parameter was read", must-analysis for the cached return
            ins_may, _ = forward(cfg, frozenset(), tr, join=lambda a, b: a | b)
            ins_must, _ = forward(cfg, frozenset(), tr)
            dep = False
            for r, rf in rets:
                if rf != fl:
                    continue
                st = state_before(cfg, ins_may, tr, r)
                if st is not TOP and "wp" in st:
                    dep = True
            if not dep:
                continue
            n_cand += 1
            ctx.analysed(f)
            cached = []
            for r, rf in rets:
                if rf != fl:
                    continue
                st = state_before(cfg, ins_must, tr, r)
                if st is not TOP and "p" not in st and "w" not in st:
                    cached.append(r)
            ok = not cached
            ctx.ob(rule, "%s: `%s`, computed from a parameter, is never handed out without looking at the parameter" % (short(f), fl), ok,
                   f.loc(cached[0]) if cached else f.loc(),
                   "every return of the member has read the parameter or has just written the member" if ok else
                   "`%s` is reachable without reading any parameter and without refreshing `%s`, although the member is filled "
                   "from the parameter(s) %s elsewhere in the function: the value computed for the first argument is returned "
                   "for every later one" % (expr_str(f, cached[0]["c"][0])[:50], fl,
                                            sorted({f.unit.decl(p)["n"] for p in params})))
    return n_cand


LOOPS = ("ForStmt", "WhileStmt", "DoStmt", "CXXForRangeStmt")


def check_loopmemo(ctx, P, funcs, rule="R-LOOPMEMO"):
    """R-LOOPMEMO: the local-variable form of the same defect.  A bool flag declared *outside* a loop, tested with
    `if (!flag)` inside it, set to true in that branch - where the branch computes from variables that are declared
    inside the loop (they change with every iteration) - and never reset inside the loop: the result computed for the
    first element that reaches the branch is reused for all later elements, so the outcome depends on the iteration
    order (hash-map order in the DWARF reader's resolve_declaration_only_classes)."""
    n_cand = 0
    for f in sorted(funcs, key=lambda x: (x.file, x.l0)):
        if f.dep:
            continue
        decl_node = {}
        for n in f.nodes():
            if n["k"] == "VarDecl":
                decl_node[n.get("d")] = n
        for n in f.nodes():
            if n["k"] != "IfStmt" or n["c"][1] is None:
                continue
            c = strip_casts(n["c"][0])
            if c is None or c["k"] != "UnaryOperator" or c.get("op") != "!":
                continue
            v = strip_casts(c["c"][0])
            if v is None or v["k"] != "DeclRefExpr" or (f.decl(v) or {}).get("st") != "local":
                continue
            t = f.type(v)
            if not t or t["c"] != "bool":
                continue
            flag = v.get("d")
            dn = decl_node.get(flag)
            loops = [a for a in f.ancestors(n) if a["k"] in LOOPS]
            if dn is None or not loops:
                continue
            outer = [L for L in loops if not any(x["i"] == dn["i"] for x in walk(L))]
            if not outer:
                continue
            L = outer[-1]
            then = n["c"][1]

            def assigns(root, val):
                return any(x["k"] == "BinaryOperator" and x.get("op") == "=" and
                           (strip_casts(x["c"][0]) or {}).get("d") == flag and
                           (strip_casts(x["c"][1]) or {}).get("k") == "CXXBoolLiteralExpr" and
                           (strip_casts(x["c"][1]) or {}).get("v") == val for x in walk(root))
            if not assigns(then, 1):
                continue
            n_cand += 1
            ctx.analysed(f)
            inner = {x.get("d") for x in walk(L) if x["k"] == "VarDecl"}
            if L["k"] == "CXXForRangeStmt" and L.get("d"):
                inner.add(L["d"])
            used = sorted({(f.decl(x) or {}).get("n") for x in walk(then) if x["k"] == "DeclRefExpr" and x.get("d") in inner})
            ok = not used or assigns(L, 0)
            fname = (f.decl(v) or {}).get("n")
            ctx.ob(rule, "%s: the value computed under `!%s` inside the loop does not outlive its iteration" % (short(f), fname),
                   ok, f.loc(n),
                   "the branch reads no per-iteration variable" if not used else
                   "the flag is reset inside the loop" if ok else
                   "`%s` is declared outside the loop, set in the branch and never reset, while the branch computes from %s, "
                   "which change with every iteration: the verdict of the first element is reused for the others and the "
                   "result depends on the iteration order" % (fname, used[:4]))
    return n_cand
