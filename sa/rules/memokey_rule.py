"""R-MEMOKEY: a memoised result must be keyed by everything it depends on.

Pattern (the repo's own lazy idiom, `if (!cache_) cache_ = compute(); return cache_;`): a member function whose
result is a data member R, filled inside `if (!G) { ... }` where G is a data member (R itself or a flag) that the
then-branch also sets.  If the computation in that branch reads a *parameter* of the function, the value stored the
first time is returned for every later argument: the cache must be keyed by that parameter (a map looked up with it,
or a guard that mentions it).  The regex getters of the suppression classes compute from members only and pass.
"""
from engine.cfg import strip_casts
from engine.facts import walk, call_args, member_call_object, expr_str
from rules.null_rules import short


def _field_of(f, e):
    e = strip_casts(e)
    while e is not None:
        if e["k"] == "CXXMemberCallExpr" and (f.decl(e) or {}).get("n") in ("get", "operator bool", "empty", "size"):
            e = strip_casts(member_call_object(e))
        elif e["k"] in ("CXXConstructExpr", "ExprWithCleanups", "CXXBindTemporaryExpr", "MaterializeTemporaryExpr",
                        "ImplicitCastExpr") and len(call_args(e) if e["k"] == "CXXConstructExpr" else e.get("c", [])) == 1:
            e = strip_casts((call_args(e) if e["k"] == "CXXConstructExpr" else e["c"])[0])
        else:
            break
    if e is not None and e["k"] == "MemberExpr" and (f.decl(e) or {}).get("k") == "Field":
        return f.decl(e)["n"]
    return None


def check(ctx, P, funcs, rule="R-MEMOKEY"):
    n_cand = 0
    for f in sorted(funcs, key=lambda x: (x.file, x.l0)):
        if f.dep or not f.cls or f.cfg() is None:
            continue
        params = set(f.r["params"])
        rets = {_field_of(f, r["c"][0]) for r in f.nodes() if r["k"] == "ReturnStmt" and r.get("c")}
        rets.discard(None)
        if not rets:
            continue
        for n in f.nodes():
            if n["k"] != "IfStmt" or n["c"][1] is None:
                continue
            def conjuncts(e):
                e = strip_casts(e)
                if e is not None and e["k"] == "BinaryOperator" and e.get("op") == "&&":
                    return conjuncts(e["c"][0]) + conjuncts(e["c"][1])
                return [e] if e is not None else []
            guards = []
            for c in conjuncts(n["c"][0]):
                if c["k"] in ("UnaryOperator", "CXXOperatorCallExpr") and c.get("op") == "!":
                    g_ = _field_of(f, c["c"][-1])
                    if g_:
                        guards.append(g_)
            if not guards:
                continue
            then = n["c"][1]
            stored = set()
            for x in walk(then):
                if x["k"] in ("BinaryOperator", "CXXOperatorCallExpr") and x.get("op") == "=":
                    l = call_args(x)[0] if x["k"] == "CXXOperatorCallExpr" else x["c"][0]
                    fl = _field_of(f, l)
                    if fl:
                        stored.add(fl)
                if x["k"] == "CXXMemberCallExpr" and (f.decl(x) or {}).get("n") in ("reset", "push_back", "insert", "emplace_back", "assign"):
                    fl = _field_of(f, member_call_object(x))
                    if fl:
                        stored.add(fl)
            guard = next((g_ for g_ in guards if g_ in stored), None)
            if guard is None or not (stored & rets):
                continue
            n_cand += 1
            ctx.analysed(f)
            used = sorted({f.unit.decl(x["d"])["n"] for x in walk(then) if x["k"] == "DeclRefExpr" and x.get("d") in params})
            # keyed: the guard (or an enclosing condition) mentions the parameter
            keyed = any(x["k"] == "DeclRefExpr" and x.get("d") in params for x in walk(n["c"][0]))
            ok = not used or keyed
            ctx.ob(rule, "%s: the value memoised under `!%s` depends on members only" % (short(f), guard), ok, f.loc(n),
                   "computed from data members (no parameter is read in the filling branch)" if not used else
                   "keyed by the parameter" if keyed else
                   "the branch that fills `%s` reads the parameter(s) %s, but the guard `!%s` does not: the value computed "
                   "for the first argument is returned for every later one" % (sorted(stored & rets)[0], used, guard))
    return n_cand


LOOPS = ("ForStmt", "WhileStmt", "DoStmt", "CXXForRangeStmt")


def check_loopmemo(ctx, P, funcs, rule="R-LOOPMEMO"):
    """R-LOOPMEMO: the local-variable form of the same defect.  A bool flag declared *outside* a loop, tested with
    `if (!flag)` inside it, set to true in that branch - where the branch computes from variables that are declared
    inside the loop (they change with every iteration) - and never reset inside the loop: the result computed for the
    first element that reaches the branch is reused for all later elements, so the outcome depends on the iteration
    order (hash-map order in the DWARF reader's resolve_declaration_only_classes)."""
    n_cand = 0
    for f in sorted(funcs, key=lambda x: (x.file, x.l0)):
        if f.dep:
            continue
        decl_node = {}
        for n in f.nodes():
            if n["k"] == "VarDecl":
                decl_node[n.get("d")] = n
        for n in f.nodes():
            if n["k"] != "IfStmt" or n["c"][1] is None:
                continue
            c = strip_casts(n["c"][0])
            if c is None or c["k"] != "UnaryOperator" or c.get("op") != "!":
                continue
            v = strip_casts(c["c"][0])
            if v is None or v["k"] != "DeclRefExpr" or (f.decl(v) or {}).get("st") != "local":
                continue
            t = f.type(v)
            if not t or t["c"] != "bool":
                continue
            flag = v.get("d")
            dn = decl_node.get(flag)
            loops = [a for a in f.ancestors(n) if a["k"] in LOOPS]
            if dn is None or not loops:
                continue
            outer = [L for L in loops if not any(x["i"] == dn["i"] for x in walk(L))]
            if not outer:
                continue
            L = outer[-1]
            then = n["c"][1]

            def assigns(root, val):
                return any(x["k"] == "BinaryOperator" and x.get("op") == "=" and
                           (strip_casts(x["c"][0]) or {}).get("d") == flag and
                           (strip_casts(x["c"][1]) or {}).get("k") == "CXXBoolLiteralExpr" and
                           (strip_casts(x["c"][1]) or {}).get("v") == val for x in walk(root))
            if not assigns(then, 1):
                continue
            n_cand += 1
            ctx.analysed(f)
            inner = {x.get("d") for x in walk(L) if x["k"] == "VarDecl"}
            if L["k"] == "CXXForRangeStmt" and L.get("d"):
                inner.add(L["d"])
            used = sorted({(f.decl(x) or {}).get("n") for x in walk(then) if x["k"] == "DeclRefExpr" and x.get("d") in inner})
            ok = not used or assigns(L, 0)
            fname = (f.decl(v) or {}).get("n")
            ctx.ob(rule, "%s: the value computed under `!%s` inside the loop does not outlive its iteration" % (short(f), fname),
                   ok, f.loc(n),
                   "the branch reads no per-iteration variable" if not used else
                   "the flag is reset inside the loop" if ok else
                   "`%s` is declared outside the loop, set in the branch and never reset, while the branch computes from %s, "
                   "which change with every iteration: the verdict of the first element is reused for the others and the "
                   "result depends on the iteration order" % (fname, used[:4]))
    return n_cand
