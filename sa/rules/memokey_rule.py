"""R-MEMOKEY: a memoised result must be keyed by everything it depends on.

Pattern (the repo's own lazy idiom, `if (!cache_) cache_ = compute(); return cache_;`): a member function whose
result is a data member R, filled inside `if (!G) { ... }` where G is a data member (R itself or a flag) that the
then-branch also sets.  If the computation in that branch reads a *parameter* of the function, the value stored the
first time is returned for every later argument: the cache must be keyed by that parameter (a map looked up with it,
or a guard that mentions it).  The regex getters of the suppression classes compute from members only and pass.
"""
from engine.cfg import strip_casts
from engine.facts import walk, call_args, member_call_object, expr_str
from rules.null_rules import short


def _field_of(f, e):
    e = strip_casts(e)
    while e is not None:
        if e["k"] == "CXXMemberCallExpr" and (f.decl(e) or {}).get("n") in ("get", "operator bool", "empty", "size"):
            e = strip_casts(member_call_object(e))
        elif e["k"] in ("CXXConstructExpr", "ExprWithCleanups", "CXXBindTemporaryExpr", "MaterializeTemporaryExpr",
                        "ImplicitCastExpr") and len(call_args(e) if e["k"] == "CXXConstructExpr" else e.get("c", [])) == 1:
            e = strip_casts((call_args(e) if e["k"] == "CXXConstructExpr" else e["c"])[0])
        else:
            break
    if e is not None and e["k"] == "MemberExpr" and (f.decl(e) or {}).get("k") == "Field":
        return f.decl(e)["n"]
    return None


def check(ctx, P, funcs, rule="R-MEMOKEY"):
    n_cand = 0
    for f in sorted(funcs, key=lambda x: (x.file, x.l0)):
        if f.dep or not f.cls or f.cfg() is None:
            continue
        params = set(f.r["params"])
        rets = {_field_of(f, r["c"][0]) for r in f.nodes() if r["k"] == "ReturnStmt" and r.get("c")}
        rets.discard(None)
        if not rets:
            continue
        for n in f.nodes():
            if n["k"] != "IfStmt" or n["c"][1] is None:
                continue
            def conjuncts(e):
                e = strip_casts(e)
                if e is not None and e["k"] == "BinaryOperator" and e.get("op") == "&&":
                    return conjuncts(e["c"][0]) + conjuncts(e["c"][1])
                return [e] if e is not None else []
            guards = []
            for c in conjuncts(n["c"][0]):
                if c["k"] in ("UnaryOperator", "CXXOperatorCallExpr") and c.get("op") == "!":
                    g_ = _field_of(f, c["c"][-1])
                    if g_:
                        guards.append(g_)
            if not guards:
                continue
            then = n["c"][1]
            stored = set()
            for x in walk(then):
                if x["k"] in ("BinaryOperator", "CXXOperatorCallExpr") and x.get("op") == "=":
                    l = call_args(x)[0] if x["k"] == "CXXOperatorCallExpr" else x["c"][0]
                    fl = _field_of(f, l)
                    if fl:
                        stored.add(fl)
                if x["k"] == "CXXMemberCallExpr" and (f.decl(x) or {}).get("n") in ("reset", "push_back", "insert", "emplace_back", "assign"):
                    fl = _field_of(f, member_call_object(x))
                    if fl:
                        stored.add(fl)
            guard = next((g_ for g_ in guards if g_ in stored), None)
            if guard is None or not (stored & rets):
                continue
            n_cand += 1
            ctx.analysed(f)
            used = sorted({f.unit.decl(x["d"])["n"] for x in walk(then) if x["k"] == "DeclRefExpr" and x.get("d") in params})
            # keyed: the guard (or an enclosing condition) mentions the parameter
            keyed = any(x["k"] == "DeclRefExpr" and x.get("d") in params for x in walk(n["c"][0]))
            ok = not used or keyed
            ctx.ob(rule, "%s: the value memoised under `!%s` depends on members only" % (short(f), guard), ok, f.loc(n),
                   "computed from data members (no parameter is read in the filling branch)" if not used else
                   "keyed by the parameter" if keyed else
                   "the branch that fills `%s` reads the parameter(s) %s, but the guard `!%s` does not: the value computed "
                   "for the first argument is returned for every later one" % (sorted(stored & rets)[0], used, guard))
    return n_cand
