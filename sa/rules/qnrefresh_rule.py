"""R-QNREFRESH: cached qualified names are refreshed by a full sub-tree traversal, never level by level.

Type canonicalisation buckets types by their qualified names, which every decl caches.  When a decl is renamed after
its members exist (an anonymous struct named by its typedef: decl_base::set_naming_typedef) or is inserted into a scope,
the names cached *anywhere below it* are stale.  The IR refreshes them with update_qualified_name(), which traverses the
whole sub-tree with qualified_name_setter.  A partial refresh leaves `__anonymous_struct__::Inner::Deep` in the DWARF
reader's IR while the ABIXML reader (which builds the type under an already named parent) gets `Outer::Inner::Deep`:
a binary then differs from its own ABIXML.
  /CALLER  qualified_name_setter::do_update is called only from the visitor's own visit_begin() overloads;
  /TRAVERSE update_qualified_name(decl_base*) hands the visitor to traverse();
  /AFTER   in every function of abg-ir.cc that renames `this` (set_name() and set_qualified_name() on this, outside
           constructors and the setter itself), every path from that call reaches update_qualified_name().
"""
from engine.cfg import strip_casts
from engine.facts import walk, call_args, member_call_object, expr_str
from engine.compdb import AnalysisBroken
from rules.null_rules import short
from rules.idref_rule import _passes_on_all_paths

UNITS = ["src/abg-ir.cc"]


def check(ctx, P, rule="R-QNREFRESH"):
    setters = [f for f in P.all_funcs() if f.n == "do_update" and (f.cls or "").endswith("qualified_name_setter")]
    if len(setters) != 1:
        raise AnalysisBroken("anchor vanished: qualified_name_setter::do_update")
    su = setters[0].u
    n_calls = 0
    for f in sorted(P.all_funcs(), key=lambda x: (x.file, x.l0)):
        if f.dep:
            continue
        for n, d in f.calls():
            if d.get("u") != su:
                continue
            n_calls += 1
            ok = (f.cls or "").endswith("qualified_name_setter") and f.n == "visit_begin"
            ctx.analysed(f)
            ctx.ob(rule + "/CALLER", "%s: do_update() is driven by the traversal" % short(f), ok, f.loc(n),
                   "called from the visitor's visit_begin" if ok else
                   "qualified_name_setter::do_update is applied by hand in %s: only the decls it is applied to are "
                   "refreshed, names cached deeper in the sub-tree stay stale" % f.q)
    ctx.floor(rule + "/CALLER", "calls of qualified_name_setter::do_update", n_calls, 2)
    ups = [f for f in P.all_funcs() if f.n == "update_qualified_name" and not f.dep and
           "*" in (f.unit.type(f.params()[0]["t"]) or {}).get("s", "")]
    if len(ups) != 1:
        raise AnalysisBroken("anchor vanished: update_qualified_name(decl_base*)")
    u = ups[0]
    ctx.analysed(u)
    trav = any((u.decl(n) or {}).get("n") == "traverse" for n in u.nodes() if n["k"] == "CXXMemberCallExpr")
    ctx.ob(rule + "/TRAVERSE", "update_qualified_name(decl_base*) traverses the whole sub-tree", trav, u.loc(),
           "d->traverse(setter)" if trav else "update_qualified_name no longer calls traverse()")
    upd_usrs = {f.u for f in P.all_funcs() if f.n == "update_qualified_name"}
    n_after = 0
    for f in sorted(P.all_funcs(), key=lambda x: (x.file, x.l0)):
        if f.dep or f.cfg() is None or (f.cls or "").endswith("qualified_name_setter"):
            continue
        if f.n in ("set_qualified_name",) or f.n == (f.cls or "").split("::")[-1]:
            continue        # the setter itself; constructors (nothing can be below a decl under construction)
        # a *rename*: the function also gives `this` a new name (lazy get_qualified_name() caches are not renames)
        if not any(d2["n"] == "set_name" and n2["k"] == "CXXMemberCallExpr" and
                   (strip_casts(member_call_object(n2)) or {}).get("k") == "CXXThisExpr" for n2, d2 in f.calls()):
            continue
        for n, d in f.calls():
            if d["n"] != "set_qualified_name" or n["k"] != "CXXMemberCallExpr":
                continue
            o = strip_casts(member_call_object(n))
            if o is None or o["k"] != "CXXThisExpr":
                continue
            n_after += 1
            ctx.analysed(f)
            ok = _passes_on_all_paths(f, n, lambda e: e["k"] == "CallExpr" and (f.decl(e) or {}).get("u") in upd_usrs)
            ctx.ob(rule + "/AFTER", "%s: renaming `this` is followed by update_qualified_name()" % short(f), ok, f.loc(n),
                   "every path from set_qualified_name() reaches update_qualified_name()" if ok else
                   "the decl is renamed but the qualified names cached in its sub-tree are not refreshed by a full "
                   "traversal on every path")
    ctx.floor(rule + "/AFTER", "renames of `this` outside the setter", n_after, 1)
