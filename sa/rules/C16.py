"""C16 - recorded function and variable signatures match the source (tag-level decisions of the signature builders).

Which DIEs describe a function is runtime.  How each kind of DIE is turned into a piece of signature is a finite
table keyed by DWARF tags, visible in the code:

R-CVCONV   build_qualified_type composed with the writer: DW_TAG_const_type / volatile / restrict become the qualifier
           that the ABIXML writer spells `const=` / `volatile=` / `restrict=` (names through <dwarf.h> and the ABIXML
           vocabulary, never through the IR enumerator identifiers); the three tags reach three different qualifiers.
R-VARIADIC build_function_type, per kind of child DIE: a DW_TAG_formal_parameter yields a parameter built with
           variadic_marker=false, a DW_TAG_unspecified_parameters one built with variadic_marker=true, any other child
           yields none.
R-VARIADICNAME the textual signature of a function-type DIE (die_return_and_parm_names_from_fn_type_die) is a lookup key of
           the reader: function types already built are found again by it.  In its DW_TAG_unspecified_parameters arm an
           element is appended to the parameter names unconditionally, so that `int (const char*, ...)` and
           `int (const char*)` never share a key.
R-RETVOID  build_function_type: without DW_AT_type the return type is the void type
           (build_ir_node_for_void_type), with it the type built from that DIE.
R-PARMKEEP build_function_type: every DW_TAG_formal_parameter child contributes a parameter - no path through that arm
           skips the push (a parameter whose type could not be built is today dropped silently: recorded finding; the
           function is then recorded with fewer parameters than its declaration has).
"""
from engine.cfg import strip_casts
from engine.facts import walk, call_args, member_call_object, expr_str
from engine.compdb import AnalysisBroken
from rules.world import World, ANY, truth

UNITS = ["src/abg-dwarf-reader.cc", "src/abg-writer.cc", "src/abg-ir.cc"]


def norm(s):
    return s.lower().replace("_", "").replace("-", "")


def run(ctx):
    ctx.clause = ("each kind of DIE of a function description becomes the matching piece of signature: the three qualifier "
                  "tags map to the qualifiers the writer spells with the same names, a formal parameter gives a plain "
                  "parameter, unspecified parameters give the variadic marker, a missing DW_AT_type gives void")
    ctx.rules = ["R-CVCONV", "R-VARIADIC", "R-VARIADICNAME", "R-RETVOID", "R-PARMKEEP"]
    P = ctx.program(UNITS)
    check_cv(ctx, P)
    check_fn(ctx, P)
    check_variadic_name(ctx, P)
    ctx.assume("which DIEs exist and what they refer to (the types themselves, typedef chains, names) is read from the debug "
               "info at run time; the documented normalisations (const reference, const void) are value-level")


def _tagname(f, e):
    for y in walk(e):
        if y["k"] == "DeclRefExpr" and ((f.decl(y) or {}).get("n") or "").startswith("DW_TAG_"):
            return f.decl(y)["n"]
        if (y.get("m") or "").startswith("DW_TAG_"):
            return y["m"]
    return None


def check_cv(ctx, P):
    fs = [f for f in P.all_funcs() if f.n == "build_qualified_type" and not f.dep and f.cfg() is not None and f.q.startswith("abigail::dwarf_reader")]
    if len(fs) != 1:
        raise AnalysisBroken("anchor vanished: dwarf_reader build_qualified_type")
    f = fs[0]
    ctx.analysed(f)
    # tag -> enumerator: `if (tag == DW_TAG_x) qual |= CV_X`
    table = {}
    for s in f.nodes():
        if s["k"] != "IfStmt" or s["c"][0] is None or len(s["c"]) < 2 or s["c"][1] is None:
            continue
        c = strip_casts(s["c"][0])
        if c is None or c["k"] != "BinaryOperator" or c.get("op") != "==":
            continue
        tag = _tagname(f, c)
        if not tag:
            continue
        for x in walk(s["c"][1]):
            if x["k"] in ("CompoundAssignOperator", "CXXOperatorCallExpr", "BinaryOperator") and x.get("op") in ("|=", "="):
                a = call_args(x) if x["k"] == "CXXOperatorCallExpr" else x["c"]
                for y in walk(a[-1]):
                    if y["k"] == "DeclRefExpr" and ((f.decl(y) or {}).get("n") or "").startswith("CV_") and y.get("v") is not None:
                        table[tag] = (f.decl(y)["n"], y["v"])
            break_ = False
    if len(table) < 3:
        raise AnalysisBroken("anchor vanished: the tag -> qualifier chain of build_qualified_type (found %s)" % sorted(table))
    # writer: `if (cv & CV_X) o << " word='yes'"`
    ws = [g for g in P.all_funcs() if not g.dep and g.q.startswith("abigail::xml_writer::") and
          any(x["k"] == "StringLiteral" and "<qualified-type-def" in (x.get("s") or "") for x in g.nodes())]
    if len(ws) != 1:
        raise AnalysisBroken("anchor vanished: the writer of <qualified-type-def>")
    w = ws[0]
    ctx.analysed(w)
    words = {}
    for s in w.nodes():
        if s["k"] != "IfStmt" or s["c"][0] is None or len(s["c"]) < 2 or s["c"][1] is None:
            continue
        vals = [y["v"] for y in walk(s["c"][0]) if y["k"] == "DeclRefExpr" and ((w.decl(y) or {}).get("n") or "").startswith("CV_") and y.get("v") is not None]
        lits = [y["s"] for y in walk(s["c"][1]) if y["k"] == "StringLiteral" and "='yes'" in (y.get("s") or "")]
        if len(vals) == 1 and len(lits) == 1:
            words[vals[0]] = lits[0].strip().split("=")[0]
    n = 0
    for tag, (en, ev) in sorted(table.items()):
        n += 1
        word = words.get(ev)
        ok = bool(word) and norm(tag[len("DW_TAG_"):]).replace("type", "") == norm(word)
        ctx.ob("R-CVCONV", "%s is recorded as the qualifier of the same name" % tag, ok, f.loc(),
               "%s -> %s -> %s='yes'" % (tag, en, word) if ok else
               "%s -> %s -> %s: a `%s`-qualified type is recorded with another qualifier" % (tag, en, word, tag[7:-5]))
    ok = len({v for _, v in table.values()}) == len(table)
    ctx.ob("R-CVCONV", "the qualifier tags reach distinct qualifiers", ok, f.loc(), ", ".join("%s -> %s" % (k, v[0]) for k, v in sorted(table.items())))
    ctx.floor("R-CVCONV", "qualifier tags", n, 3)


def check_fn(ctx, P):
    fs = [f for f in P.all_funcs() if f.n == "build_function_type" and not f.dep and f.cfg() is not None and f.q.startswith("abigail::dwarf_reader")]
    if len(fs) != 1:
        raise AnalysisBroken("anchor vanished: dwarf_reader build_function_type")
    f = fs[0]
    ctx.analysed(f)
    tagvars = {x.get("d") for x in f.nodes() if x["k"] == "VarDecl" and x.get("c") and x["c"][0] is not None and
               any(y["k"] == "CallExpr" and (f.decl(y) or {}).get("n") == "dwarf_tag" for y in walk(x["c"][0]))}
    TAGS = {}
    for x in f.nodes():
        if x["k"] == "DeclRefExpr" and ((f.decl(x) or {}).get("n") or "").startswith("DW_TAG_") and x.get("v") is not None:
            TAGS[f.decl(x)["n"]] = x["v"]
        if x["k"] == "IntegerLiteral" and (x.get("m") or "").startswith("DW_TAG_"):
            TAGS[x["m"]] = x["v"]
    for need in ("DW_TAG_formal_parameter", "DW_TAG_unspecified_parameters"):
        if need not in TAGS:
            raise AnalysisBroken("anchor vanished: build_function_type no longer tests %s" % need)
    # the parameter constructions: `new function_decl::parameter(type, [name, loc,] variadic_marker, is_artificial)`
    ctors = {}
    for g in P.all_funcs():
        if g.n == "parameter" and g.q.endswith("function_decl::parameter::parameter"):
            names = [(g.unit.decl(p) or {}).get("n") for p in g.r["params"]]
            ctors[g.u] = names
    news = []
    for x in f.nodes():
        if x["k"] == "CXXConstructExpr" and (f.decl(x) or {}).get("u") in ctors:
            names = ctors[(f.decl(x) or {}).get("u")]
            vi = [i for i, nm in enumerate(names) if nm and "variadic" in nm]
            args = [a for a in x.get("c", [])]
            val = None
            if vi and vi[0] < len(args) and args[vi[0]] is not None:
                a = strip_casts(args[vi[0]])
                if a is not None and a.get("v") is not None:
                    val = bool(a["v"])
            news.append((x, val))
    if len(news) < 2:
        raise AnalysisBroken("anchor vanished: build_function_type no longer constructs function_decl::parameter objects (found %d)" % len(news))
    pushes = [x for x in f.nodes() if x["k"] == "CXXMemberCallExpr" and (f.decl(x) or {}).get("n") in ("push_back", "emplace_back") and
              "parm" in expr_str(f, member_call_object(x)).lower()]

    def world(tagval, parm_type_ok=True):
        def atom(e):
            if e["k"] == "DeclRefExpr" and e.get("d") in tagvars:
                return [tagval]
            if e["k"] == "CallExpr" and (f.decl(e) or {}).get("n") in ("dwarf_child",):
                return [0]
            return None
        W = World(f, atom)
        seen, _ = W.blocks()
        return W, {e["i"] for b in seen for e in f.cfg().blocks[b].elems}
    n = 0
    for tag, want in (("DW_TAG_formal_parameter", False), ("DW_TAG_unspecified_parameters", True), (None, None)):
        W, reached = world(TAGS[tag] if tag else 0x7fff)
        made = sorted({val for x, val in news if x["i"] in reached}, key=str)
        pushed = any(p["i"] in reached for p in pushes)
        n += 1
        if tag is None:
            ok = not made and not pushed
            ctx.ob("R-VARIADIC", "build_function_type: a child that is neither a formal nor an unspecified parameter yields no parameter", ok, f.loc(),
                   "no parameter is constructed" if ok else "a parameter is constructed for an unrelated child DIE")
        else:
            ok = made == [want] and pushed
            ctx.ob("R-VARIADIC", "build_function_type: %s yields a parameter with variadic_marker=%s" % (tag, str(want).lower()), ok, f.loc(),
                   "constructed and pushed" if ok else
                   "constructed with variadic_marker in %s, pushed: %s - the variadic-ness recorded differs from the declaration" % (made, pushed))
    ctx.floor("R-VARIADIC", "child-tag worlds", n, 3)
    # R-PARMKEEP: in the formal-parameter world, every path of one loop iteration that enters the arm passes push_back
    W, reached = world(TAGS["DW_TAG_formal_parameter"])
    arm_news = [x for x, val in news if val is False and x["i"] in reached]
    skips = []
    for x in f.nodes():
        if x["k"] in ("ContinueStmt", "BreakStmt") and x["i"] in {e["i"] for e in f.nodes()}:
            # a continue / break inside the formal-parameter arm, i.e. in an `if` whose condition names DW_TAG_formal_parameter
            arms = [a for a in f.ancestors(x) if a["k"] == "IfStmt" and a["c"][0] is not None and _tagname(f, a["c"][0]) == "DW_TAG_formal_parameter"
                    and a["c"][1] is not None and any(y is x for y in walk(a["c"][1]))]
            if arms:
                skips.append(x)
    ok = not skips
    guard = ""
    if skips:
        g = [a for a in f.ancestors(skips[0]) if a["k"] == "IfStmt"]
        guard = expr_str(f, g[0]["c"][0]) if g else ""
    ctx.ob("R-PARMKEEP", "build_function_type: every DW_TAG_formal_parameter child contributes a parameter", ok, f.loc(skips[0]) if skips else f.loc(),
           "no path through the arm skips the push" if ok else
           "`if (%s) %s;` leaves the arm without pushing: a parameter whose type could not be built is dropped and the function is "
           "recorded with fewer parameters than it is declared with" % (guard, "continue" if skips[0]["k"] == "ContinueStmt" else "break"))
    # R-RETVOID: path sensitive (the local that holds the return type is tracked; -1 is a pseudo variable "void was built")
    child_vars = {x.get("d") for x in f.nodes() if x["k"] == "VarDecl" and (f.unit.decl(x.get("d")) or {}).get("n") == "child"}
    void_calls = [x for x in f.nodes() if x["k"] == "CallExpr" and (f.decl(x) or {}).get("n") == "build_ir_node_for_void_type"]
    sets = [x for x in f.nodes() if x["k"] == "CXXMemberCallExpr" and (f.decl(x) or {}).get("n") == "set_return_type"]
    if not void_calls or not sets:
        raise AnalysisBroken("anchor vanished: build_function_type no longer falls back on build_ir_node_for_void_type / set_return_type")
    locals_ = {x.get("d") for x in f.nodes() if x["k"] == "VarDecl"}
    rvs = [y.get("d") for y in walk(call_args(sets[0])[0]) if y["k"] == "DeclRefExpr" and y.get("d") in locals_]
    rvar = rvs[0] if rvs else None
    seen_at_set = []

    def atom(e):
        if e["k"] == "CallExpr" and (f.decl(e) or {}).get("n") == "die_die_attribute" and _attr(f, e) == "DW_AT_type" and \
                not any(y["k"] == "DeclRefExpr" and y.get("d") in child_vars for y in walk(call_args(e)[0])):
            return [False]
        if e["k"] in ("CXXConstructExpr", "CXXTemporaryObjectExpr") and not [a for a in e.get("c", []) if a is not None]:
            return [None]
        if e["k"] == "CallExpr" and (f.decl(e) or {}).get("n") in ("is_type", "build_ir_node_for_void_type"):
            return ["TYPE"]
        return None

    def effect(e, env):
        if e["k"] == "CallExpr" and (f.decl(e) or {}).get("n") == "build_ir_node_for_void_type":
            env[-1] = frozenset([True])
        if e["k"] == "CXXMemberCallExpr" and (f.decl(e) or {}).get("n") == "set_return_type":
            seen_at_set.append(env.get(-1) == frozenset([True]))
    W = World(f, atom, effect)
    W.run_env({rvar} if rvar is not None else set())
    ok = bool(seen_at_set) and all(seen_at_set)
    ctx.ob("R-RETVOID", "build_function_type: without DW_AT_type the return type is void", ok, f.loc(void_calls[0]),
           "build_ir_node_for_void_type() lies on every path to set_return_type()" if ok else
           "set_return_type() is reachable without the void type having been built: a function without DW_AT_type is recorded "
           "with no return type")


def _attr(f, call):
    for a in call_args(call)[1:2]:
        for y in walk(a):
            if y["k"] == "DeclRefExpr" and ((f.decl(y) or {}).get("n") or "").startswith("DW_AT_"):
                return f.decl(y)["n"]
            if (y.get("m") or "").startswith("DW_AT_"):
                return y["m"]
    return None



def check_variadic_name(ctx, P):
    fs = [f for f in P.all_funcs() if f.n == "die_return_and_parm_names_from_fn_type_die" and not f.dep and f.cfg() is not None]
    if len(fs) != 1:
        raise AnalysisBroken("anchor vanished: die_return_and_parm_names_from_fn_type_die")
    f = fs[0]
    ctx.analysed(f)
    arms = [s for s in f.nodes() if s["k"] == "IfStmt" and s["c"][0] is not None and _tagname(f, s["c"][0]) == "DW_TAG_unspecified_parameters"
            and len(s["c"]) > 1 and s["c"][1] is not None]
    if not arms:
        raise AnalysisBroken("anchor vanished: the DW_TAG_unspecified_parameters arm of die_return_and_parm_names_from_fn_type_die")
    arm = arms[0]
    names_p = [p for p in f.r["params"] if (f.unit.decl(p) or {}).get("n") == "parm_names"]
    pushes = [x for x in walk(arm["c"][1]) if x["k"] == "CXXMemberCallExpr" and (f.decl(x) or {}).get("n") in ("push_back", "emplace_back") and
              (not names_p or any(y["k"] == "DeclRefExpr" and y.get("d") == names_p[0] for y in walk(member_call_object(x))))]
    uncond = []
    for p in pushes:
        conds = [a for a in f.ancestors(p) if a["k"] in ("IfStmt", "ConditionalOperator", "ForStmt", "WhileStmt", "SwitchStmt") and
                 a is not arm and any(z is a for z in walk(arm["c"][1]))]
        if not conds:
            uncond.append(p)
    ok = bool(uncond)
    ctx.ob("R-VARIADICNAME", "the signature string of a function type always names its unspecified parameters", ok,
           f.loc(uncond[0]) if uncond else f.loc(arm),
           "`%s` runs for every DW_TAG_unspecified_parameters child" % expr_str(f, uncond[0])[:60] if ok else
           "in the DW_TAG_unspecified_parameters arm nothing is appended unconditionally: a variadic function type can get the "
           "signature string of its non-variadic twin, and the type built for one is handed out for the other")
