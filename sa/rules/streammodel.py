"""R-READCONTRACT / R-READPRE: the INI reader's `ABG_ASSERT(read_next_char(c))` can never fire.

The reader asserts, in some twenty places, that read_next_char() succeeds.  Each of these sites relies on one contract:

    after peek(), if good() answers true, read_next_char() returns true.

R-READPRE    (site side)  every read_next_char() evaluated under ABG_ASSERT is preceded, on all paths, by a call of peek()
             and a test of good() that came out true - or the peeked character compared equal to a character literal,
             which the end-of-file value is not - with no call that moves the stream in between.
R-READCONTRACT (callee side)  the contract itself, decided by executing the *source* of the stream primitives
             (get, peek, put_back, good, eof, handle_escape, read_next_char - whatever they call inside the reader) on a
             finite abstraction of the reader's state:

                 put-back buffer buf_     E (empty) | N (not empty)
                 input stream in_         Anb / Abs  a character is available (peeked) and is not / is a backslash
                                          U          good, nothing known about what follows
                                          X          end of file / failed

             The only assumed semantics are those of the library objects (std::istream::peek/get/good/eof and
             std::vector::empty/back/pop_back/push_back; table LIB below).  Starting from the freshly opened stream (E,U)
             the reachable states are closed under the primitives; from every reachable state peek() is executed, the
             post-states where good() answers true (or the peeked value is not the end-of-file value) are kept, and
             read_next_char() is executed from each of them: every
             path must return true.  A path that returns false is reported with the state it starts from - an input
             that drives the reader there aborts the tool.
"""
from engine.cfg import strip_casts, forward, state_before, TOP
from engine.facts import walk, call_args, member_call_object, expr_str
from engine.compdb import AnalysisBroken
from rules.world import World, ANY, UNK, truth
from rules.null_rules import short

READER = "abigail::ini::read_context"
BS, NB, EOFV = 92, "NB", "EOF"          # a backslash / some character that is not a backslash / the end-of-file value


def lib(field, meth, st):
    """[(value, state')] : the assumed behaviour of the two library objects of the reader"""
    buf, ins = st
    if field == "buf_":
        if meth == "empty":
            return [(buf == "E", st)]
        if meth in ("back", "front", "size"):
            return [(ANY, st)]
        if meth == "pop_back":
            return [(None, ("E", ins)), (None, ("N", ins))] if buf == "N" else [(None, st)]
        if meth in ("push_back", "emplace_back"):
            return [(None, ("N", ins))]
        if meth == "clear":
            return [(None, ("E", ins))]
    if field == "in_":
        if meth == "peek":
            if ins == "Anb":
                return [(NB, st)]
            if ins == "Abs":
                return [(BS, st)]
            if ins == "U":
                return [(NB, (buf, "Anb")), (BS, (buf, "Abs")), (EOFV, (buf, "X"))]
            return [(EOFV, st)]
        if meth == "get":
            if ins == "Anb":
                return [(NB, (buf, "U"))]
            if ins == "Abs":
                return [(BS, (buf, "U"))]
            if ins == "U":
                return [(NB, (buf, "U")), (BS, (buf, "U")), (EOFV, (buf, "X"))]
            return [(EOFV, st)]
        if meth == "good":
            return [(ins != "X", st)]
        if meth in ("eof", "fail", "bad"):
            return [(ins == "X", st)]
    return None


class Model(object):
    def __init__(self, P):
        self.P = P
        self.methods = {f.u: f for f in P.all_funcs() if f.cls == READER and not f.dep and f.cfg() is not None}
        self.memo = {}
        self.steps = 0
        self.unknown = set()

    def named(self, name, nparams=None):
        r = [f for f in self.methods.values() if f.n == name and (nparams is None or len(f.r["params"]) == nparams)]
        if len(r) != 1:
            raise AnalysisBroken("anchor vanished: %s::%s" % (READER, name))
        return r[0]

    def call(self, g, st, args, depth=0):
        """set of (returned value, state') of method g started in state st with the given argument values"""
        key = (g.u, st, args)
        if key in self.memo:
            return self.memo[key]
        if depth > 12:
            raise AnalysisBroken("R-READCONTRACT: recursion among the stream primitives (%s)" % g.sig)
        self.memo[key] = frozenset()
        cfg = g.cfg()
        env0 = {}
        for p, a in zip(g.r["params"], args):
            env0[p] = a
        out = set()
        cur = [None, None]
        isref = []
        for p in g.r["params"]:
            pd = g.unit.decl(p) or {}
            pt = g.unit.type(pd.get("t")) if pd.get("t") else None
            ps = (pt or {}).get("s", "") if isinstance(pt, dict) else ""
            isref.append("&" in ps and "const" not in ps)

        def refs(env):
            return tuple(env.get(p, ANY) if r else None for p, r in zip(g.r["params"], isref))

        def atom(e):
            env, vals = cur
            if e["i"] in vals:
                return [vals[e["i"]]]
            k = e["k"]
            if k == "DeclRefExpr" and e.get("d") in env:
                return [env[e["d"]]]
            if k == "CharacterLiteral":
                return [BS if e.get("v") == 92 else NB]
            if k == "BinaryOperator" and e.get("op") in ("==", "!="):
                a, b = W.ev(e["c"][0]), W.ev(e["c"][1])
                if any(x in (BS, NB, EOFV) for x in a | b):
                    res = set()
                    for x in a:
                        for y in b:
                            if x == y and x in (BS, EOFV):
                                res.add(True)
                            elif {x, y} in ({BS, NB}, {EOFV, NB}, {EOFV, BS}):
                                res.add(False)
                            else:
                                res |= {True, False}
                    return [(r if e["op"] == "==" else not r) for r in res]
            return None
        W = World(g, atom)
        stack = [(cfg.entry, 0, st, env0, {})]
        seen = set()
        while stack:
            b, i, s, env, vals = stack.pop()
            sig = (b, i, s, tuple(sorted(env.items(), key=lambda kv: kv[0])), tuple(sorted(vals.items())))
            if sig in seen or b not in cfg.blocks:
                continue
            seen.add(sig)
            self.steps += 1
            if self.steps > 400000:
                raise AnalysisBroken("R-READCONTRACT: state space too large")
            blk = cfg.blocks[b]
            if i >= len(blk.elems):
                if b == cfg.exit:
                    out.add((None, s, refs(env)))
                    continue
                if blk.noret:
                    continue
                cur[0], cur[1] = env, vals
                t = blk.term
                succs = [x for x in blk.succs if x is not None] if (t is not None and t["k"] == "SwitchStmt") else W.feasible_succs(b)
                for nx in succs:
                    if nx is not None:
                        stack.append((nx, 0, s, env, vals))
                continue
            e = blk.elems[i]
            cur[0], cur[1] = env, vals
            k = e["k"]
            if k == "ReturnStmt":
                rv = W.ev(e["c"][0]) if e.get("c") and e["c"][0] is not None else frozenset([None])
                for v in rv:
                    out.add((v, s, refs(env)))
                continue
            if k == "CXXMemberCallExpr":
                o = strip_casts(member_call_object(e))
                d = g.decl(e) or {}
                if o is not None and o["k"] == "MemberExpr" and (g.decl(o) or {}).get("k") == "Field":
                    fld = g.decl(o)["n"]
                    res = lib(fld, d.get("n"), s)
                    if res is None:
                        self.unknown.add("%s.%s" % (fld, d.get("n")))
                        res = [(ANY, s)]
                    for v, s2 in res:
                        v2 = dict(vals)
                        v2[e["i"]] = v
                        stack.append((b, i + 1, s2, env, v2))
                    continue
                callee = self.methods.get(d.get("u"))
                if callee is not None and o is not None and o["k"] == "CXXThisExpr":
                    argv = []
                    for a in call_args(e):
                        av = W.ev(a)
                        argv.append(next(iter(av)) if len(av) == 1 else ANY)
                    res = self.call(callee, s, tuple(argv), depth + 1)
                    for v, s2, outs in res:
                        env2 = env
                        # a variable handed over by non-const reference comes back with the value the callee left in it
                        for ov, a in zip(outs, call_args(e)):
                            a0 = strip_casts(a)
                            if ov is not None and a0 is not None and a0["k"] == "DeclRefExpr" and a0.get("d") is not None:
                                if env2 is env:
                                    env2 = dict(env)
                                env2[a0["d"]] = ov
                        v2 = dict(vals)
                        v2[e["i"]] = v
                        stack.append((b, i + 1, s2, env2, v2))
                    continue
            if k == "VarDecl" and e.get("d") is not None:
                env = dict(env)
                if e.get("c") and e["c"][0] is not None:
                    vs = W.ev(e["c"][0])
                    for v in vs:
                        e2 = dict(env)
                        e2[e["d"]] = v
                        stack.append((b, i + 1, s, e2, vals))
                    continue
                env[e["d"]] = ANY
            elif k in ("BinaryOperator", "CXXOperatorCallExpr") and e.get("op") == "=":
                a = call_args(e) if k == "CXXOperatorCallExpr" else e["c"]
                l = strip_casts(a[0])
                if l is not None and l["k"] == "DeclRefExpr" and l.get("d") is not None:
                    vs = W.ev(a[1])
                    for v in vs:
                        e2 = dict(env)
                        e2[l["d"]] = v
                        stack.append((b, i + 1, s, e2, vals))
                    continue
            elif k in ("CompoundAssignOperator",) or (k == "UnaryOperator" and e.get("op") in ("++", "--")):
                l = strip_casts(e["c"][0]) if e.get("c") else None
                if l is not None and l["k"] == "DeclRefExpr" and l.get("d") in env:
                    env = dict(env)
                    env[l["d"]] = ANY
            stack.append((b, i + 1, s, env, vals))
        self.memo[key] = frozenset(out)
        return self.memo[key]


def _args_for(m, g, fixed=None):
    """argument tuples to try for a primitive: booleans both ways, anything else unknown"""
    import itertools
    dom = []
    for p in g.r["params"]:
        d = g.unit.decl(p) or {}
        t = g.unit.type(d.get("t")) if d.get("t") else None
        s = (t or {}).get("s", "") if isinstance(t, dict) else ""
        dom.append([True, False] if s.strip() == "bool" else [ANY])
    return [tuple(x) for x in itertools.product(*dom)]


def check_contract(ctx, P, rule="R-READCONTRACT"):
    m = Model(P)
    rnc = m.named("read_next_char")
    good = m.named("good")
    peeks = [f for f in m.methods.values() if f.n == "peek"]
    if not peeks:
        raise AnalysisBroken("anchor vanished: %s::peek" % READER)
    prims = [f for f in m.methods.values() if f.n in ("get", "peek", "put_back", "read_next_char", "handle_escape")]
    for f in prims + [good]:
        ctx.analysed(f)
    # reachable abstract states
    reach = {("E", "U")}
    work = [("E", "U")]
    while work:
        s = work.pop()
        for g in prims:
            for args in _args_for(m, g):
                for _, s2, _o in m.call(g, s, args):
                    if s2 not in reach:
                        reach.add(s2)
                        work.append(s2)
    # post-states of peek() where good() is true
    pre = {}
    for s in sorted(reach):
        for pk in peeks:
            for args in _args_for(m, pk):
                for rv, s2, _o in m.call(pk, s, args):
                    gv = {v for v, _, _o2 in m.call(good, s2, ())}
                    if True in truth(frozenset(gv)) or rv != EOFV:
                        pre.setdefault(s2, s)
    if not pre:
        raise AnalysisBroken("R-READCONTRACT: no state in which good() holds after peek()")
    names = {"E": "empty", "N": "not empty", "Anb": "a character other than a backslash is available", "Abs": "a backslash is available",
             "U": "good, nothing peeked", "X": "at end of file"}
    n = 0
    for s in sorted(pre):
        n += 1
        res = m.call(rnc, s, (ANY,))
        bad = [v for v, _, _o in res if False in truth(frozenset([v]))]
        ctx.ob(rule, "read_next_char() after peek() and good(), put-back buffer %s, stream %s" % (names[s[0]], names[s[1]]),
               not bad and bool(res), rnc.loc(),
               "every path of read_next_char (through %s) returns true from this state" % ", ".join(sorted({f.n for f in prims}))
               if not bad and res else
               "read_next_char() can return false although good() answered true after peek(): the state is reached by peek() "
               "from (buffer %s, stream %s); the ABG_ASSERT(read_next_char(c)) sites of the reader abort on such an input" % (
                   names[pre[s][0]], names[pre[s][1]]))
    if m.unknown:
        ctx.note("%s: library calls without a model, treated as value-unknown and state-preserving: %s" % (rule, ", ".join(sorted(m.unknown))))
    ctx.note("%s: reachable abstract states of the reader: %s; %d interpreter steps" % (
        rule, ", ".join("(%s,%s)" % s for s in sorted(reach)), m.steps))
    return n


def check_sites(ctx, P, cons, rule="R-READPRE"):
    """every read_next_char() under ABG_ASSERT is dominated by peek() ... good()==true with no consumer in between"""
    fs = [f for f in P.all_funcs() if f.cls == READER and not f.dep and f.cfg() is not None]
    byu = {f.u: f for f in fs}
    n = 0
    for f in sorted(fs, key=lambda x: x.l0):
        sites = []
        for x in f.nodes():
            if x["k"] == "CXXMemberCallExpr" and (f.decl(x) or {}).get("n") == "read_next_char" and f.macro(x) == "ABG_ASSERT":
                sites.append(x)
        if not sites:
            continue
        ctx.analysed(f)
        cfg = f.cfg()

        def name_of(e):
            return (f.decl(e) or {}).get("n") if e["k"] == "CXXMemberCallExpr" else None

        def is_peek(x):
            x = strip_casts(x)
            return x is not None and name_of(x) == "peek"

        def tr(st, e, blk):
            nm = name_of(e)
            if e["k"] == "VarDecl" and e.get("d") is not None:
                st = frozenset(x for x in st if x != ("V", e["d"]))
                return st | {("V", e["d"])} if e.get("c") and e["c"][0] is not None and is_peek(e["c"][0]) and "P" in st else st
            if e["k"] == "BinaryOperator" and e.get("op") == "=":
                l = strip_casts(e["c"][0])
                if l is not None and l["k"] == "DeclRefExpr":
                    st = frozenset(x for x in st if x != ("V", l.get("d")))
                    return st | {("V", l.get("d"))} if is_peek(e["c"][1]) and "P" in st else st
            if nm is None:
                return st
            u = (f.decl(e) or {}).get("u")
            if nm == "peek":
                return frozenset(["P"])
            if u in cons or (u in byu and nm not in ("good", "eof", "peek") and not nm.startswith("char_is")):
                return frozenset()
            return st

        def edge(st, blk, idx):
            for c in cfg.branch_conds(blk.id):
                c0 = strip_casts(c)
                if c0 is not None and c0["k"] == "CXXBoolLiteralExpr" and bool(c0.get("v")) != (idx == 0):
                    return TOP                      # do { ... } while (false) of the assertion macros
            if "P" not in st:
                return st
            for c in cfg.branch_conds(blk.id):
                c0 = strip_casts(c)
                neg = False
                while c0 is not None and c0["k"] == "UnaryOperator" and c0.get("op") == "!":
                    neg = not neg
                    c0 = strip_casts(c0["c"][0])
                if c0 is not None and name_of(c0) == "good" and ((idx == 0) != neg):
                    return st | {"G"}
                # the peeked character compared equal to a character literal: a character is there (end of file is no literal)
                if c0 is not None and c0["k"] == "BinaryOperator" and c0.get("op") in ("==", "!="):
                    a, b = strip_casts(c0["c"][0]), strip_casts(c0["c"][1])
                    for x, y in ((a, b), (b, a)):
                        if y is not None and y["k"] == "CharacterLiteral" and x is not None and \
                                (is_peek(x) or (x["k"] == "DeclRefExpr" and ("V", x.get("d")) in st)):
                            if ((idx == 0) != neg) == (c0["op"] == "=="):
                                return st | {"G"}
            return st
        ins, _ = forward(cfg, frozenset(), tr, edge=edge, join=lambda a, b: a & b)
        seen = {}
        for x in sites:
            n += 1
            st = state_before(cfg, ins, tr, x)
            ok = st is TOP or ("P" in st and "G" in st)
            st = st if st is TOP else frozenset(x for x in st if not isinstance(x, tuple))
            ent = "%s: ABG_ASSERT(read_next_char(...))" % short(f)
            seen[ent] = seen.get(ent, 0) + 1
            if seen[ent] > 1:
                ent += " #%d" % seen[ent]
            ctx.ob(rule, ent, ok, f.loc(x),
                   "peek() was called and good() tested true on every path to the assertion, with nothing read in between" if ok else
                   "the assertion is reached without a peek() followed by a good() that came out true (facts here: %s): nothing "
                   "guarantees a character is there, and read_next_char() returning false aborts the tool" % sorted(st))
    return n


def _macro_of(f, x):
    n = x
    while n is not None:
        if n.get("m"):
            return n["m"]
        n = f.parent(n)
    return None
