"""C02 - ABIXML preserves the ABI (vocabulary clauses)."""
from rules import vocab_rules as vr


def run(ctx):
    ctx.clause = ("the ABIXML writer and reader agree on element / attribute names, on every enum<->string table, and "
                  "on which element kinds may omit their size; a hash-style type id is registered as used before it is "
                  "handed out (two types never share an id)")
    ctx.rules = ["R-VOCAB", "R-ENUMTAB", "R-DEFSZ", "R-IDUNIQ", "R-QNREFRESH", "R-REFSETS", "R-ATTRWIDTH"]
    P = ctx.program(vr.UNITS)
    vr.check_vocab(ctx, P)
    vr.check_enumtab(ctx, P)
    vr.check_defsz(ctx, P)
    from rules import C40
    C40.check_iduniq(ctx, ctx.program(C40.UNITS))
    from rules import qnrefresh_rule
    qnrefresh_rule.check(ctx, ctx.program(qnrefresh_rule.UNITS))
    check_refsets(ctx)
    from rules import attrwidth_rule
    attrwidth_rule.check(ctx, ctx.program(["src/abg-reader.cc"]))
    ctx.assume("that attribute *values* (sizes, offsets, ids) are computed and re-interpreted consistently is runtime "
               "behaviour and is not decided")



def check_refsets(ctx):
    """R-REFSETS: a type id written as a reference (type-id='..') must have its definition in the document.  The writer
    records referenced types in member sets (write_context::record_type_as_referenced chooses one of them per type) and
    write_referenced_types() emits what is still missing.  Agreement between the two ends: every set that
    record_type_as_referenced can insert into is read - through its accessor - on every path of write_referenced_types
    before the emission loop starts (a set that is only looked at inside the loop is never looked at when the other sets
    happen to be empty).  Reading the document back then fails on the dangling id."""
    from engine.facts import walk, call_args, member_call_object, expr_str
    from engine.cfg import strip_casts
    from engine.compdb import AnalysisBroken
    from rules.idref_rule import _on_all_paths_before
    P = ctx.program(["src/abg-writer.cc"])
    rec = [f for f in P.all_funcs() if f.n == "record_type_as_referenced" and not f.dep and f.cfg() is not None]
    if not rec:
        raise AnalysisBroken("anchor vanished: write_context::record_type_as_referenced")
    filled = set()
    for f in rec:
        for x in f.nodes():
            if x["k"] == "CXXMemberCallExpr" and (f.decl(x) or {}).get("n") in ("insert", "emplace"):
                o = strip_casts(member_call_object(x))
                if o is not None and o["k"] == "MemberExpr" and (f.decl(o) or {}).get("k") == "Field":
                    filled.add(f.decl(o)["n"])
    if len(filled) < 2:
        raise AnalysisBroken("anchor vanished: record_type_as_referenced no longer fills member sets (%s)" % sorted(filled))
    # accessors: member functions of write_context whose body returns one of these members
    acc = {}
    for g in P.all_funcs():
        if g.dep or not g.cls or not g.cls.endswith("write_context") or g.body is None:
            continue
        rets = [x for x in g.nodes() if x["k"] == "ReturnStmt" and x.get("c") and x["c"][0] is not None]
        if len(rets) == 1:
            r = strip_casts(rets[0]["c"][0])
            if r is not None and r["k"] == "MemberExpr" and (g.decl(r) or {}).get("n") in filled:
                acc.setdefault(g.decl(r)["n"], set()).add(g.n)
    ws = [f for f in P.all_funcs() if f.n == "write_referenced_types" and not f.dep and f.cfg() is not None]
    if len(ws) != 1:
        raise AnalysisBroken("anchor vanished: xml_writer write_referenced_types")
    w = ws[0]
    ctx.analysed(w)
    loops = [x for x in w.nodes() if x["k"] == "WhileStmt" and x["c"][0] is not None and "empty" in expr_str(w, x["c"][0])]
    if not loops:
        raise AnalysisBroken("anchor vanished: the emission loop of write_referenced_types")
    loop = min(loops, key=lambda x: x.get("l", 0))
    target = [y for y in walk(loop["c"][0]) if y["k"] == "CXXMemberCallExpr"]
    target = target[0] if target else loop["c"][0]
    for m in sorted(filled):
        names = acc.get(m, set())
        ok = bool(names) and _on_all_paths_before(w, target, lambda e: (e["k"] == "CXXMemberCallExpr" and (w.decl(e) or {}).get("n") in names) or
                                                  (e["k"] == "MemberExpr" and (w.decl(e) or {}).get("n") == m))
        ctx.ob("R-REFSETS", "write_referenced_types looks at %s before it starts emitting" % m, ok, w.loc(loop),
               "%s() is read on every path to the loop" % "/".join(sorted(names)) if ok else
               "record_type_as_referenced() files types into %s, but write_referenced_types reaches its emission loop without having read "
               "%s: when the other sets are empty the loop never runs and a referenced type is left without definition" % (m, "/".join(sorted(names)) or m))
    ctx.floor("R-REFSETS", "sets filled by record_type_as_referenced", len(filled), 3)
