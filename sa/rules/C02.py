"""C02 - ABIXML preserves the ABI (vocabulary clauses)."""
from rules import vocab_rules as vr


def run(ctx):
    ctx.clause = ("the ABIXML writer and reader agree on element / attribute names, on every enum<->string table, and "
                  "on which element kinds may omit their size; a hash-style type id is registered as used before it is "
                  "handed out (two types never share an id)")
    ctx.rules = ["R-VOCAB", "R-ENUMTAB", "R-DEFSZ", "R-IDUNIQ", "R-QNREFRESH"]
    P = ctx.program(vr.UNITS)
    vr.check_vocab(ctx, P)
    vr.check_enumtab(ctx, P)
    vr.check_defsz(ctx, P)
    from rules import C40
    C40.check_iduniq(ctx, ctx.program(C40.UNITS))
    from rules import qnrefresh_rule
    qnrefresh_rule.check(ctx, ctx.program(qnrefresh_rule.UNITS))
    ctx.assume("that attribute *values* (sizes, offsets, ids) are computed and re-interpreted consistently is runtime "
               "behaviour and is not decided")
