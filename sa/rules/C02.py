"""C02 - ABIXML preserves the ABI (vocabulary clauses)."""
from rules import vocab_rules as vr


def run(ctx):
    ctx.clause = ("the ABIXML writer and reader agree on element / attribute names, on every enum<->string table, and "
                  "on which element kinds may omit their size")
    ctx.rules = ["R-VOCAB", "R-ENUMTAB", "R-DEFSZ"]
    P = ctx.program(vr.UNITS)
    vr.check_vocab(ctx, P)
    vr.check_enumtab(ctx, P)
    vr.check_defsz(ctx, P)
    ctx.assume("that attribute *values* (sizes, offsets, ids) are computed and re-interpreted consistently is runtime "
               "behaviour and is not decided")
