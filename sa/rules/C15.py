"""C15 - recorded type layouts match the compiler's layouts (the offset-composition formulas only).

Sizes and offsets are numbers read from the DWARF; whether they equal the compiler's is decided by running a compiler.
The reader does, however, *compute* one family of layout values itself: the bit offset of a data member, out of up to
four attributes, with one encoding per DWARF generation.  The formulas are fixed by the DWARF standard and are visible
in the code as arithmetic over attribute values; they are decided here symbolically (linear forms over the attribute
values, world interpreter with tracked variables and out-parameter effects):

R-MEMBEROFF  die_member_offset: with DW_AT_data_bit_offset (DWARF 4/5 style) the offset is that value; otherwise it is
             8 * DW_AT_data_member_location, plus the converted DW_AT_bit_offset when that (DWARF 2/3 style) attribute
             is present - in every world of {data_bit_offset present, location constant / expression, bit_offset present}.
R-BITOFFCONV read_and_convert_DW_at_bit_offset: on a big-endian target the converted value is DW_AT_bit_offset itself, on
             a little-endian one it is 8 * DW_AT_byte_size - DW_AT_bit_offset - DW_AT_bit_size (DWARF 4, section 5.5.6:
             bit_offset counts from the most significant bit of the storage unit); absent attribute => false.
R-DIESIDE    "different translation units define different types with the same name": whether two same-named type DIEs are
             one type is decided by the compare_* functions of the reader (compare_dies and its helpers), which take the two
             DIEs as `l` and `r`.  Every comparison in them pairs a value that derives from `l` only with one that derives
             from `r` only (provenance through initialisers, assignments and the out-parameters of calls that take one
             DIE): a value of mixed provenance means one side was read from the other DIE.
R-VALPDEREF  Dwarf_Attribute::valp points at the form-encoded bytes of an attribute value; it may be compared as a pointer
             (same place, same value) but a comparison never dereferences it: the first byte of a DW_FORM_strx* index or of
             a DW_FORM_strp offset says nothing about the string.
R-OFFSETSRC  the offset of a data member is one quantity, composed by die_member_offset out of up to three attributes; the
             partial readers it is composed of (die_constant_data_member_location, read_and_convert_DW_at_bit_offset)
             are called from nowhere else - in particular not from the DIE comparison, which must compare what is
             recorded (two bit-fields of one storage unit have the same data_member_location).
R-SIZEBITS   die_size_in_bits: 8 * DW_AT_byte_size when that attribute is present, else DW_AT_bit_size, else false.
"""
from engine.cfg import strip_casts
from engine.facts import walk, call_args, expr_str
from engine.compdb import AnalysisBroken
from rules.world import World, Lin, ANY

UNITS = ["src/abg-dwarf-reader.cc"]


def _fn(P, name):
    fs = [f for f in P.all_funcs() if f.n == name and not f.dep and f.cfg() is not None and f.q.startswith("abigail::dwarf_reader")]
    if len(fs) != 1:
        raise AnalysisBroken("anchor vanished: dwarf_reader %s (found %d)" % (name, len(fs)))
    return fs[0]


def _attr_name(f, e):
    for y in walk(e):
        if y["k"] == "DeclRefExpr" and ((f.decl(y) or {}).get("n") or "").startswith("DW_AT_"):
            return f.decl(y)["n"]
        if y.get("m", "").startswith("DW_AT_"):
            return y["m"]
    return None


def _outvar(e):
    e = strip_casts(e)
    while e is not None and e["k"] in ("UnaryOperator",) and e.get("op") == "&":
        e = strip_casts(e["c"][0])
    return e.get("d") if e is not None and e["k"] == "DeclRefExpr" else None


def run(ctx):
    ctx.clause = ("the bit offset the DWARF reader computes for a data member is, symbolically, the value the DWARF standard "
                  "defines from the attributes present (DW_AT_data_bit_offset, or 8 * DW_AT_data_member_location plus the "
                  "endianness-converted DW_AT_bit_offset)")
    ctx.rules = ["R-MEMBEROFF", "R-BITOFFCONV", "R-SIZEBITS", "R-DIESIDE", "R-VALPDEREF", "R-OFFSETSRC"]
    P = ctx.program(UNITS)
    check_dieside(ctx, P)
    check_valpderef(ctx, P)
    check_offsetsrc(ctx, P)
    check_conv(ctx, P)
    check_member(ctx, P)
    check_size(ctx, P)
    ctx.assume("the attribute values themselves, sizes of types and everything else the statement quantifies over are read "
               "from the debug info at run time; only the arithmetic the reader adds is decided")


def check_conv(ctx, P):
    f = _fn(P, "read_and_convert_DW_at_bit_offset")
    ctx.analysed(f)
    ps = f.r["params"]
    be_p, out_p = ps[1], ps[2]
    track = {x.get("d") for x in f.nodes() if x["k"] == "VarDecl"} | {out_p}
    n = 0
    for present in (True, False):
        for big in (True, False):
            def atom(e):
                if e["k"] == "CallExpr" and (f.decl(e) or {}).get("n") == "die_unsigned_constant_attribute":
                    return [present if _attr_name(f, call_args(e)[1]) == "DW_AT_bit_offset" else True]
                if e["k"] == "DeclRefExpr" and e.get("d") == be_p:
                    return [big]
                return None

            def effect(e, env):
                if e["k"] == "CallExpr" and (f.decl(e) or {}).get("n") == "die_unsigned_constant_attribute":
                    a = call_args(e)
                    nm, v = _attr_name(f, a[1]), _outvar(a[2])
                    if v is not None and nm and (nm != "DW_AT_bit_offset" or present):
                        env[v] = frozenset([Lin.sym(nm)])
            W = World(f, atom, effect)
            W.run_env(track)
            n += 1
            outs = [(rv, env.get(out_p)) for rv, env in W.ret_envs]
            if not present:
                ok = all(rv == frozenset([False]) for rv, _ in outs) and bool(outs)
                ctx.ob("R-BITOFFCONV", "without DW_AT_bit_offset (%s endian) nothing is converted" % ("big" if big else "little"), ok, f.loc(),
                       "returns false" if ok else "returns %s" % [sorted(map(str, rv)) for rv, _ in outs])
                continue
            want = Lin.sym("DW_AT_bit_offset") if big else \
                Lin.sym("DW_AT_byte_size").scale(8) - Lin.sym("DW_AT_bit_offset") - Lin.sym("DW_AT_bit_size")
            true_outs = [o for rv, o in outs if rv == frozenset([True])]
            ok = bool(true_outs) and all(o == frozenset([want]) for o in true_outs) and all(rv == frozenset([True]) for rv, _ in outs)
            ctx.ob("R-BITOFFCONV", "%s endian: converted offset = %s" % ("big" if big else "little", want), ok, f.loc(),
                   "computed symbolically" if ok else
                   "the function computes %s: bit-field offsets recorded for DWARF 2/3 style descriptions are wrong" % (
                       [sorted(map(str, o)) if o is not None else None for o in true_outs] or "no value"))
    ctx.floor("R-BITOFFCONV", "worlds", n, 4)


def check_member(ctx, P):
    f = _fn(P, "die_member_offset")
    ctx.analysed(f)
    out_p = f.r["params"][2]
    track = {x.get("d") for x in f.nodes() if x["k"] == "VarDecl"} | {out_p}
    LOC, CONV, DBO = Lin.sym("DW_AT_data_member_location"), Lin.sym("converted(DW_AT_bit_offset)"), Lin.sym("DW_AT_data_bit_offset")
    n = 0
    for dbo in (True, False):
        for const_loc in (True, False):
            for conv in (True, False):
                if dbo and (not const_loc or conv):
                    continue

                def atom(e):
                    if e["k"] != "CallExpr":
                        if e["k"] == "DeclRefExpr" and e.get("d") in track and False:
                            return None
                        return None
                    nm = (f.decl(e) or {}).get("n")
                    if nm == "die_unsigned_constant_attribute":
                        return [dbo if _attr_name(f, call_args(e)[1]) == "DW_AT_data_bit_offset" else ANY]
                    if nm == "die_constant_data_member_location":
                        return [const_loc]
                    if nm in ("die_location_expr", "eval_quickly"):
                        return [True]
                    if nm == "read_and_convert_DW_at_bit_offset":
                        return [conv]
                    return None

                def effect(e, env):
                    if e["k"] != "CallExpr":
                        return
                    nm = (f.decl(e) or {}).get("n")
                    a = call_args(e)
                    if nm == "die_unsigned_constant_attribute" and dbo and _attr_name(f, a[1]) == "DW_AT_data_bit_offset":
                        v = _outvar(a[2])
                        if v is not None:
                            env[v] = frozenset([DBO])
                    if nm == "die_constant_data_member_location" and const_loc:
                        v = _outvar(a[1])
                        if v is not None:
                            env[v] = frozenset([LOC])
                    if nm == "eval_quickly":
                        v = _outvar(a[2])
                        if v is not None:
                            env[v] = frozenset([LOC])
                    if nm == "read_and_convert_DW_at_bit_offset" and conv:
                        v = _outvar(a[2])
                        if v is not None:
                            env[v] = frozenset([CONV])
                W = World(f, atom, effect)
                W.run_env(track)
                n += 1
                want = DBO if dbo else (LOC.scale(8) + CONV if conv else LOC.scale(8))
                outs = [(rv, env.get(out_p)) for rv, env in W.ret_envs]
                ok = bool(outs) and all(rv == frozenset([True]) and o == frozenset([want]) for rv, o in outs)
                desc = "DW_AT_data_bit_offset present" if dbo else "location %s, DW_AT_bit_offset %s" % (
                    "constant" if const_loc else "expression", "present" if conv else "absent")
                ctx.ob("R-MEMBEROFF", "die_member_offset (%s): offset = %s" % (desc, want), ok, f.loc(),
                       "computed symbolically" if ok else
                       "the function yields %s: the layout-offset-in-bits recorded for the member differs from the compiler's" % (
                           [(sorted(map(str, rv)), sorted(map(str, o)) if o is not None else None) for rv, o in outs]))
    ctx.floor("R-MEMBEROFF", "worlds", n, 5)



def check_size(ctx, P):
    f = _fn(P, "die_size_in_bits")
    ctx.analysed(f)
    out_p = f.r["params"][1]
    die_p = f.r["params"][0]
    track = {x.get("d") for x in f.nodes() if x["k"] == "VarDecl"} | {out_p}
    n = 0
    for has_bytes in (True, False):
        for has_bits in (True, False):
            present = {"DW_AT_byte_size": has_bytes, "DW_AT_bit_size": has_bits}

            def atom(e):
                if e["k"] == "CallExpr" and (f.decl(e) or {}).get("n") == "die_unsigned_constant_attribute":
                    return [present.get(_attr_name(f, call_args(e)[1]), ANY)]
                if e["k"] == "DeclRefExpr" and e.get("d") == die_p:
                    return ["DIE"]
                return None

            def effect(e, env):
                if e["k"] == "CallExpr" and (f.decl(e) or {}).get("n") == "die_unsigned_constant_attribute":
                    a = call_args(e)
                    nm, v = _attr_name(f, a[1]), _outvar(a[2])
                    if v is not None and present.get(nm):
                        env[v] = frozenset([Lin.sym(nm)])
            W = World(f, atom, effect)
            W.run_env(track)
            n += 1
            outs = [(rv, env.get(out_p)) for rv, env in W.ret_envs]
            if not has_bytes and not has_bits:
                ok = bool(outs) and all(rv == frozenset([False]) for rv, _ in outs)
                ctx.ob("R-SIZEBITS", "die_size_in_bits: no size attribute, no size", ok, f.loc(), "returns false" if ok else "returns %s" % outs)
                continue
            want = Lin.sym("DW_AT_byte_size").scale(8) if has_bytes else Lin.sym("DW_AT_bit_size")
            ok = bool(outs) and all(rv == frozenset([True]) and o == frozenset([want]) for rv, o in outs)
            ctx.ob("R-SIZEBITS", "die_size_in_bits (byte_size %s, bit_size %s): size = %s" % (
                "present" if has_bytes else "absent", "present" if has_bits else "absent", want), ok, f.loc(),
                "computed symbolically" if ok else "the function yields %s" % [(sorted(map(str, rv)), sorted(map(str, o)) if o else None) for rv, o in outs])
    ctx.floor("R-SIZEBITS", "worlds", n, 4)



def _side_provenance(f):
    ps = f.r["params"]
    names = {(f.unit.decl(p) or {}).get("n"): p for p in ps}
    if "l" not in names or "r" not in names:
        return None
    prov = {names["l"]: {"l"}, names["r"]: {"r"}}
    locs = {x.get("d") for x in f.nodes() if x["k"] == "VarDecl"}

    def pv(e):
        out = set()
        for y in walk(e):
            if y["k"] == "DeclRefExpr" and y.get("d") in prov:
                out |= prov[y["d"]]
        return out
    changed = True
    while changed:
        changed = False
        for x in f.nodes():
            tgt = src = None
            if x["k"] == "VarDecl" and x.get("c") and x["c"][0] is not None:
                tgt, src = x.get("d"), pv(x["c"][0])
            elif x["k"] in ("BinaryOperator", "CompoundAssignOperator") and (x.get("op") or "").endswith("=") and \
                    x.get("op") not in ("==", "!=", "<=", ">="):
                l = strip_casts(x["c"][0])
                if l is not None and l["k"] == "DeclRefExpr" and l.get("d") in locs:
                    tgt, src = l.get("d"), pv(x["c"][1])
            if tgt is not None and src and not src <= prov.get(tgt, set()):
                prov[tgt] = prov.get(tgt, set()) | src
                changed = True
            if x["k"] == "CallExpr":
                args = call_args(x)
                sided = [s_ for s_ in (pv(a) for a in args) if s_]
                inp = set().union(*sided) if sided else set()
                if len(inp) == 1:          # a reader that takes one DIE: its other local arguments are out-parameters
                    for a in args:
                        a0 = strip_casts(a)
                        while a0 is not None and a0["k"] == "UnaryOperator" and a0.get("op") == "&":
                            a0 = strip_casts(a0["c"][0])
                        if a0 is not None and a0["k"] == "DeclRefExpr" and a0.get("d") in locs and not inp <= prov.get(a0["d"], set()):
                            prov[a0["d"]] = prov.get(a0["d"], set()) | inp
                            changed = True
    return pv


def check_dieside(ctx, P):
    n = 0
    for f in sorted(P.all_funcs(), key=lambda x: (x.file, x.l0, x.sig)):
        if f.dep or f.cfg() is None or not f.n.startswith("compare_") or not f.q.startswith("abigail::dwarf_reader"):
            continue
        pv = _side_provenance(f)
        if pv is None:
            continue
        seen = {}
        for x in f.nodes():
            if x["k"] in ("BinaryOperator", "CXXOperatorCallExpr") and x.get("op") in ("==", "!=", "<", ">", "<=", ">="):
                a = call_args(x) if x["k"] == "CXXOperatorCallExpr" else x["c"]
                if len(a) != 2:
                    continue
                pa, pb = pv(a[0]), pv(a[1])
                if not pa or not pb:
                    continue
                n += 1
                ctx.analysed(f)
                ok = (pa, pb) in (({"l"}, {"r"}), ({"r"}, {"l"}))
                txt = expr_str(f, x)[:60]
                seen[txt] = seen.get(txt, 0) + 1
                ctx.ob("R-DIESIDE", "%s: `%s`%s compares a value of `l` with a value of `r`" % (f.n, txt, "" if seen[txt] == 1 else " #%d" % seen[txt]),
                       ok, f.loc(x), "left operand from %s, right operand from %s" % ("/".join(sorted(pa)), "/".join(sorted(pb))) if ok else
                       "the operands derive from %s and %s: one side of the comparison was read from the other DIE, so two different "
                       "types can compare equal and be merged" % ("+".join(sorted(pa)), "+".join(sorted(pb))))
    ctx.floor("R-DIESIDE", "two-sided comparisons in the DIE comparison functions", n, 20)


def check_valpderef(ctx, P, rule="R-VALPDEREF"):
    n = 0
    bad = 0
    for f in sorted(P.all_funcs(), key=lambda x: (x.file, x.l0, x.sig)):
        if f.dep or not f.q.startswith("abigail::dwarf_reader"):
            continue
        for x in f.nodes():
            if x["k"] == "MemberExpr" and (f.decl(x) or {}).get("n") == "valp":
                n += 1
                p = f.parent(x)
                while p is not None and p["k"] in ("ImplicitCastExpr", "ParenExpr"):
                    p = f.parent(p)
                if p is not None and p["k"] == "UnaryOperator" and p.get("op") == "*":
                    q = f.parent(p)
                    while q is not None and q["k"] in ("ImplicitCastExpr", "ParenExpr"):
                        q = f.parent(q)
                    if q is not None and q["k"] == "BinaryOperator" and q.get("op") in ("==", "!=", "<", ">"):
                        bad += 1
                        ctx.analysed(f)
                        ctx.ob(rule, "%s: an attribute value is never compared through the first byte of its encoding #%d" % (f.n, bad), False, f.loc(q),
                               "`%s` dereferences Dwarf_Attribute::valp: it compares one byte of a form-encoded value (a string-table offset or "
                               "a DW_FORM_strx index), not the strings - names of different units compare equal" % expr_str(f, q)[:70])
    ctx.ob(rule, "attribute values are compared as pointers or decoded, never through a dereferenced valp", bad == 0, "",
           "%d uses of Dwarf_Attribute::valp, %d dereferenced inside a comparison" % (n, bad))
    ctx.floor(rule, "uses of Dwarf_Attribute::valp", n, 2)



PARTIAL = ("die_constant_data_member_location", "read_and_convert_DW_at_bit_offset")


def check_offsetsrc(ctx, P):
    n = 0
    for f in sorted(P.all_funcs(), key=lambda x: (x.file, x.l0, x.sig)):
        if f.dep or not f.q.startswith("abigail::dwarf_reader"):
            continue
        for x in f.nodes():
            if x["k"] == "CallExpr" and (f.decl(x) or {}).get("n") in PARTIAL:
                n += 1
                ctx.analysed(f)
                ok = f.n == "die_member_offset"
                k = sum(1 for o in ctx.obligations if o["rule"] == "R-OFFSETSRC" and o["entity"].startswith(f.n + ":"))
                ctx.ob("R-OFFSETSRC", "%s: call #%d of %s() is part of the offset composition" % (f.n, k + 1, (f.decl(x) or {}).get("n")), ok, f.loc(x),
                       "inside die_member_offset" if ok else
                       "%s() reads one of the attributes a member offset is made of and is used here on its own: the value differs from "
                       "the recorded offset whenever the other attributes contribute (bit-fields), so members at different bit positions "
                       "compare equal / are recorded wrongly" % (f.decl(x) or {}).get("n"))
    ctx.floor("R-OFFSETSRC", "calls of the partial offset readers", n, 2)
