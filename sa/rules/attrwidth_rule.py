"""R-ATTRWIDTH: the ABIXML reader parses a number with the width it is stored (and was written) with.

The writer prints sizes, offsets, bounds and values from 64-bit variables.  Wherever the reader turns the text of an
attribute back into a number (atoi / atol / atoll / strtol / strtoul / strtoll / strtoull), the result type of the
conversion is at least as wide as the variable that receives it: `size_t size = atoi(text)` silently maps 2400000192 to
18446744071814584512, the type read back from ABIXML is not the type read from the binary, and a binary differs from its
own abidw output.  Exceptions are listed with their reasons (quantities that a compiler cannot make large).
"""
from engine.cfg import strip_casts
from engine.facts import walk, call_args, expr_str
from engine.compdb import AnalysisBroken
from rules.null_rules import short, occurrence_tag

CONV = {"atoi": 32, "atol": 64, "atoll": 64, "strtol": 64, "strtoul": 64, "strtoll": 64, "strtoull": 64}
# (function, variable): reason
EXCEPTIONS = {
    ("build_type_decl", "size_in_bits"): "a <type-decl> is a scalar type of the language: its size is a few hundred bits at most",
    ("build_type_decl", "alignment_in_bits"): "as above",
    ("build_class_decl", "vtable_offset"): "an index into a virtual table",
    ("read_location", "line"): "source coordinates; they take no part in any comparison (C06 R-NOLOC)",
    ("read_location", "column"): "as above",
}


def _width(t):
    if not isinstance(t, dict):
        return None
    c = (t.get("c") or "").replace("const ", "").strip()
    if c in ("unsigned long", "long", "unsigned long long", "long long", "size_t", "ssize_t", "uint64_t", "int64_t"):
        return 64
    if c in ("int", "unsigned int", "unsigned"):
        return 32
    if c in ("short", "unsigned short"):
        return 16
    if c in ("char", "unsigned char", "signed char", "bool"):
        return 8
    return None


def check(ctx, P, rule="R-ATTRWIDTH"):
    n = 0
    for f in sorted(P.all_funcs(), key=lambda x: (x.file, x.l0)):
        if f.dep or not f.relfile.endswith("src/abg-reader.cc"):
            continue
        seen = {}
        for x in f.nodes():
            tgt = rhs = None
            if x["k"] == "VarDecl" and x.get("c") and x["c"][0] is not None:
                tgt, rhs, tname = x, x["c"][0], (f.decl(x) or {}).get("n")
            elif x["k"] == "BinaryOperator" and x.get("op") == "=":
                l = strip_casts(x["c"][0])
                if l is not None and l["k"] == "DeclRefExpr":
                    tgt, rhs, tname = l, x["c"][1], (f.decl(l) or {}).get("n")
            if tgt is None:
                continue
            r = strip_casts(rhs)
            if r is None or r["k"] != "CallExpr" or (f.decl(r) or {}).get("n") not in CONV:
                continue
            wv, wc = _width(f.type(tgt)), CONV[f.decl(r)["n"]]
            if wv is None:
                continue
            n += 1
            ctx.analysed(f)
            ent = "%s: %s = %s(...)" % (short(f), tname, f.decl(r)["n"])
            ent += occurrence_tag(seen, ent)
            if wc < wv and (f.n, tname) in EXCEPTIONS:
                ctx.ob(rule, ent, True, f.loc(x), "narrower conversion accepted: %s" % EXCEPTIONS[(f.n, tname)])
                continue
            ctx.ob(rule, ent, wc >= wv, f.loc(x),
                   "%d-bit conversion into a %d-bit variable" % (wc, wv) if wc >= wv else
                   "%s() yields a %d-bit value, `%s` holds %d bits and the writer prints all of them: a value of 2^31 or more "
                   "comes back different from what was written, and a binary no longer compares equal to its own ABIXML" % (
                       f.decl(r)["n"], wc, tname, wv))
    ctx.floor(rule, "numeric attribute conversions in the ABIXML reader", n, 12)
    return n
