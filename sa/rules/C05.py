"""C05 - ABI-breaking changes are always reported (masking and exit-code clauses)."""
from rules import cat_rules as cr
from rules import status_rules as sr
from rules import C08


def run(ctx):
    ctx.clause = ("a category the harmful categoriser assigns can never be switched off by the default mask, and "
                  "whenever has_net_changes() / has_incompatible_changes() hold abidiff's exit value carries the "
                  "CHANGE / INCOMPATIBLE bits on every path; removals feed has_incompatible_changes; the symbol re-lookup "
                  "that can cancel a removal only answers with the requested version")
    ctx.rules = ["R-CATPART", "R-STATUS/abidiff", "R-ATOMS/removed", "R-VERLOOKUP", "R-CTCANCEL", "R-CTPROP"]
    P = ctx.program(cr.UNITS)
    cr.check_catpart(ctx, P)
    # a change can only be reported if the two versions of the type do not compare equal: the canonical type that a
    # partial comparison tentatively propagates must not survive a difference found later (C20's propagation rules)
    from rules import C20
    Pir = ctx.program(C20.UNITS)
    C20.check_ctcancel(ctx, Pir)
    C20.check_ctprop(ctx, Pir)
    # exit code mapping of abidiff
    l1 = C08.check_atoms(ctx)
    Pt, I, main, rets = sr.analyse_tool(ctx, "abidiff", infeasible=C08.l1_prune if l1 else None)
    n = 0
    for v, w, node in rets:
        net = [k for k, val in w.preds if k[0] == "has_net_changes" and val]
        inc = [k for k, val in w.preds if k[0] == "has_incompatible_changes" and val]
        if not net and not inc:
            continue
        n += 1
        ok = isinstance(v, int) and (not net or v & 4) and (not inc or v & 8)
        ctx.ob("R-STATUS/abidiff", "main: exit value %s when %s" % (
            sr.fmt(v), " and ".join(sorted({k[0] for k in net + inc}))), ok, main.loc(node),
            "the verdict predicates that hold on this path are reflected in the exit bits")
    ctx.floor("R-STATUS/abidiff", "exit worlds with a verdict predicate true", n, 4)
    # removals are atoms of has_incompatible_changes
    from rules import atoms as at
    Pa = ctx.program(at.UNITS)
    pairs = at.netpairs(ctx, Pa)
    pbp = {p: name for name, (p, _) in pairs.items() if p}
    inc = Pa.fn1("abigail::comparison::corpus_diff::has_incompatible_changes")
    dis, _ = at.verdict_disjuncts(inc, pbp)
    flat = {a for conj in dis if len(conj) == 1 for a in conj}
    for atom in ("net_num_func_removed", "net_num_vars_removed", "net_num_removed_func_syms", "net_num_removed_var_syms"):
        ctx.ob("R-ATOMS/removed", "has_incompatible_changes tests %s" % atom, ("net", atom) in flat, inc.loc(),
               "removal counters are disjuncts of the incompatible-change verdict")
    from rules import verlookup_rule
    verlookup_rule.check(ctx, ctx.program(verlookup_rule.UNITS))
    ctx.assume("that a given source edit produces a diff node carrying the harmful category is the diff engine's "
               "runtime behaviour")
