"""C40 - hash-style type ids depend only on the type's internal name: R-HASHID.

Def-use inside the HASH_TYPE_ID_STYLE arm of write_context::get_id_for_type: the id is the
formatted value of a local that is (1) initialised from hashing::fnv_hash applied to
get_cached_pretty_representation(/*internal=*/true) of the exemplar type, (2) only ever
incremented while probing a *non-static data member* set, and nothing else flows into the
stream the id string is taken from; the arm uses neither the id_manager (sequence counter),
nor a pointer-to-integer cast, nor a variable of static storage duration.
"""
from engine.facts import walk, call_args, member_call_object, expr_str
from engine.cfg import strip_casts
from engine.compdb import AnalysisBroken

UNITS = ["src/abg-writer.cc"]


def run(ctx):
    ctx.clause = ("a hash-style type id is a function of the type's internal pretty representation (plus collision "
                  "probing against a per-writer set): it cannot depend on emission order counters or addresses")
    ctx.rules = ["R-HASHID", "R-IDUNIQ", "R-INTERNALFLAG"]
    P = ctx.program(UNITS)
    check_iduniq(ctx, P)
    check_internalflag(ctx)
    fs = [f for f in P.fn("abigail::xml_writer::write_context::get_id_for_type")
          if "*" in (f.unit.type(f.params()[0]["t"]) or {}).get("s", "")]
    if len(fs) != 1:
        raise AnalysisBroken("anchor vanished: write_context::get_id_for_type(type_base*)")
    f = fs[0]
    ctx.analysed(f)
    consts = P.enum_consts("abigail::xml_writer::type_id_style_kind")
    hv = consts.get("HASH_TYPE_ID_STYLE")
    arm = None
    for sw in f.nodes():
        if sw["k"] == "SwitchStmt":
            items = [x for x in sw["c"][1].get("c", []) if x is not None]
            for i, it in enumerate(items):
                if it["k"] == "CaseStmt" and it.get("v") == hv:
                    arm = [it["c"][-1]]
                    j = i + 1
                    while j < len(items) and items[j]["k"] not in ("CaseStmt", "DefaultStmt"):
                        arm.append(items[j])
                        j += 1
    if not arm:
        raise AnalysisBroken("anchor vanished: case HASH_TYPE_ID_STYLE in get_id_for_type")
    nodes = [x for a in arm for x in walk(a)]
    # (1) the hash local
    hash_local = None
    for n in nodes:
        if n["k"] == "VarDecl" and n.get("c"):
            calls = [x for x in walk(n["c"][0]) if x["k"] == "CallExpr" and (f.decl(x) or {}).get("n") == "fnv_hash"]
            if calls:
                hash_local = n
                arg = calls[0]
                top = strip_casts(n["c"][0])
                pure_init = top is not None and top["i"] == arg["i"]
    ok1 = hash_local is not None
    detail1 = "no local initialised from fnv_hash()"
    if ok1:
        # the argument of fnv_hash derives from get_cached_pretty_representation(true)
        src = strip_casts(call_args(arg)[0])
        # look through conversions: fnv_hash(pretty) with pretty an interned_string -> operator string()
        while src is not None and src["k"] in ("CXXMemberCallExpr", "CXXConstructExpr") and src["k"] != "DeclRefExpr":
            if src["k"] == "CXXMemberCallExpr" and (f.decl(src) or {}).get("n", "").startswith("operator "):
                src = strip_casts(member_call_object(src))
            elif src["k"] == "CXXConstructExpr" and len(src.get("c", [])) == 1:
                src = strip_casts(src["c"][0])
            else:
                break
        init = None
        if src is not None and src["k"] == "DeclRefExpr":
            for n in nodes:
                if n["k"] == "VarDecl" and n.get("d") == src.get("d") and n.get("c"):
                    init = n["c"][0]
        else:
            init = src
        pr = [x for x in walk(init) if x["k"] == "CXXMemberCallExpr" and
              (f.decl(x) or {}).get("n") == "get_cached_pretty_representation"] if init is not None else []
        internal = pr and call_args(pr[0]) and strip_casts(call_args(pr[0])[0]).get("v") == 1
        ok1 = bool(pr) and bool(internal) and pure_init
        detail1 = "hash = %s, with %s" % (expr_str(f, hash_local["c"][0]),
                                          expr_str(f, init) if init is not None else "?")
        if not pure_init:
            detail1 += " - the initial value mixes something else into the hash"
    ctx.ob("R-HASHID", "the id hash is fnv_hash(get_cached_pretty_representation(internal=true))", ok1, f.loc(arm[0]), detail1)
    # (2) only ++hash while probing a member set
    hid = hash_local.get("d") if hash_local is not None else None
    writes = []
    for n in nodes:
        if n["k"] in ("UnaryOperator", "BinaryOperator", "CompoundAssignOperator") and n is not hash_local:
            tgt = strip_casts(n["c"][0])
            if tgt is not None and tgt["k"] == "DeclRefExpr" and tgt.get("d") == hid and \
                    (n.get("op") in ("++", "--") or n.get("op", "").endswith("=") and n.get("op") not in ("==", "!=", "<=", ">=")):
                writes.append(n)
    ok2 = all(n["k"] == "UnaryOperator" and n.get("op") == "++" for n in writes)
    probes = [x for x in nodes if x["k"] == "CXXMemberCallExpr" and (f.decl(x) or {}).get("n") == "insert"]
    member_set = all(strip_casts(member_call_object(x)) is not None and
                     strip_casts(member_call_object(x))["k"] == "MemberExpr" and
                     (f.decl(strip_casts(member_call_object(x))) or {}).get("k") == "Field" for x in probes) and bool(probes)
    ctx.ob("R-HASHID", "the hash is only incremented while probing a per-writer member set", ok2 and member_set,
           f.loc(arm[0]), "writes to the hash: %s; probe set: %s" % (
               [expr_str(f, w) for w in writes], [expr_str(f, member_call_object(x)) for x in probes]))
    # (3) what is inserted into the stream the id comes from
    ins = [x for x in nodes if x["k"] == "CXXOperatorCallExpr" and x.get("op") == "<<"]
    bad_ins = []
    for x in ins:
        a = strip_casts(call_args(x)[1])
        while a is not None and a["k"] == "CXXConstructExpr" and len(a.get("c", [])) == 1:
            a = strip_casts(a["c"][0])
        if a is None:
            continue
        if a["k"] == "DeclRefExpr" and (a.get("d") == hid or (f.decl(a) or {}).get("k") in ("Function",)):
            continue
        if a["k"] == "CallExpr" and (f.decl(a) or {}).get("n", "") in ("setfill", "setw", "setbase", "setprecision"):
            continue          # std::setfill / std::setw
        if a["k"] in ("CharacterLiteral", "IntegerLiteral", "StringLiteral"):
            continue
        bad_ins.append(expr_str(f, a))
    ctx.ob("R-HASHID", "only the hash and formatting manipulators are inserted into the id string", not bad_ins and bool(ins),
           f.loc(arm[0]), "other insertions: %s" % (bad_ins or "none"))
    # (4) forbidden ingredients
    forb = []
    for x in nodes:
        if x["k"] == "CXXMemberCallExpr" and (f.decl(x) or {}).get("n") in ("get_id_manager", "get_id", "get_id_with_prefix"):
            forb.append("id_manager (sequence counter)")
        if x["k"] in ("CXXReinterpretCastExpr", "CStyleCastExpr"):
            tt = f.type(x)
            st = f.type(strip_casts(x["c"][0])) if x.get("c") else None
            if tt and tt.get("arith") and st and st.get("ptr"):
                forb.append("pointer-to-integer cast")
        if x["k"] == "DeclRefExpr":
            d = f.decl(x)
            if d and d["k"] == "Var" and d.get("st") in ("global", "static_local", "static_member") and not d.get("const"):
                forb.append("mutable static %s" % d["q"])
    ctx.ob("R-HASHID", "the hash arm uses no counter, address or static state", not forb, f.loc(arm[0]),
           "forbidden ingredients: %s" % (sorted(set(forb)) or "none"))
    ctx.assume("distinct types with colliding hashes get ids that depend on emission order (the property's own proviso)")


def check_iduniq(ctx, P, rule="R-IDUNIQ"):
    """R-IDUNIQ: a hash-style id that is handed out has been *inserted* into the per-writer set of used hashes.
    Forward dataflow over write_context::get_id_for_type: the fact INS(hash) is established on the edge on which
    `m_used_type_id_hashes.insert(hash).second` is true, killed by any write to `hash`; at the point where the hash
    is formatted into the id string INS must hold on every path.  Otherwise two types can be given one id."""
    from engine.cfg import forward, state_before, TOP
    fs = [f for f in P.fn("abigail::xml_writer::write_context::get_id_for_type")
          if "*" in (f.unit.type(f.params()[0]["t"]) or {}).get("s", "")]
    if len(fs) != 1:
        raise AnalysisBroken("anchor vanished: write_context::get_id_for_type(type_base*)")
    f = fs[0]
    ctx.analysed(f)
    cfg = f.cfg()
    hid = None
    for n in f.nodes():
        if n["k"] == "VarDecl" and n.get("c") and any(
                x["k"] == "CallExpr" and (f.decl(x) or {}).get("n") == "fnv_hash" for x in walk(n["c"][0])):
            hid = n.get("d")
    if hid is None:
        raise AnalysisBroken("anchor vanished: the local initialised from fnv_hash() in get_id_for_type")

    def is_hash(e):
        e = strip_casts(e)
        return e is not None and e["k"] == "DeclRefExpr" and e.get("d") == hid

    def insert_second(e):
        """e is  <set>.insert(hash).second"""
        e = strip_casts(e)
        if e is None or e["k"] != "MemberExpr" or (f.decl(e) or {}).get("n") != "second" or not e.get("c"):
            return False
        c = strip_casts(e["c"][0])
        return c is not None and c["k"] == "CXXMemberCallExpr" and (f.decl(c) or {}).get("n") in ("insert", "emplace") \
            and call_args(c) and is_hash(call_args(c)[0])

    def facts_of(cond, truth):
        c = strip_casts(cond)
        if c is None:
            return set()
        if c["k"] == "UnaryOperator" and c.get("op") == "!":
            return facts_of(c["c"][0], not truth)
        if c["k"] == "BinaryOperator" and c.get("op") == "&&" and truth:
            return facts_of(c["c"][0], True) | facts_of(c["c"][1], True)
        if c["k"] == "BinaryOperator" and c.get("op") == "||" and not truth:
            return facts_of(c["c"][0], False) | facts_of(c["c"][1], False)
        if insert_second(c) and truth:
            return {"INS"}
        if c["k"] == "DeclRefExpr" and truth:
            return {("INS-IF", c.get("d"))}      # resolved against the alias facts in edge()
        return set()

    def transfer(st, n, blk):
        # bool inserted = set.insert(hash).second;   /   inserted = set.insert(hash).second;
        tgt = rhs = None
        if n["k"] == "VarDecl" and n.get("c") and n["c"][0] is not None:
            tgt, rhs = n.get("d"), n["c"][0]
        elif n["k"] == "BinaryOperator" and n.get("op") == "=" and strip_casts(n["c"][0]) is not None and \
                strip_casts(n["c"][0])["k"] == "DeclRefExpr":
            tgt, rhs = strip_casts(n["c"][0]).get("d"), n["c"][1]
        if tgt is not None and tgt != hid:
            st = frozenset(x for x in st if not (isinstance(x, tuple) and x[0] == "ALIAS" and x[1] == tgt))
            if insert_second(rhs):
                st = st | {("ALIAS", tgt)}
            return st
        kill = lambda s_: frozenset(x for x in s_ if x != "INS" and not (isinstance(x, tuple) and x[0] == "ALIAS"))
        if n["k"] == "UnaryOperator" and n.get("op") in ("++", "--") and is_hash(n["c"][0]):
            return kill(st)
        if n["k"] in ("BinaryOperator", "CompoundAssignOperator") and n.get("op", "").endswith("=") and \
                n.get("op") not in ("==", "!=", "<=", ">=") and is_hash(n["c"][0]):
            return kill(st)
        if n["k"] == "VarDecl" and n.get("d") == hid:
            return kill(st)
        return st

    def edge(st, blk, idx):
        if cfg.branch(blk.id) is None:
            return st
        add = set()
        for c in cfg.branch_conds(blk.id):
            for fact in facts_of(c, idx == 0):
                if isinstance(fact, tuple) and fact[0] == "INS-IF":
                    if ("ALIAS", fact[1]) in st:
                        add.add("INS")
                else:
                    add.add(fact)
        return st | frozenset(add)
    ins, _ = forward(cfg, frozenset(), transfer, edge)
    uses = []
    for x in f.nodes():
        if x["k"] == "CXXOperatorCallExpr" and x.get("op") == "<<" and is_hash(call_args(x)[1]):
            uses.append(x)
    ctx.floor(rule, "places where the hash is formatted into an id", len(uses), 1)
    for i, x in enumerate(uses):
        st = state_before(cfg, ins, transfer, x)
        ok = st is not TOP and "INS" in st
        ctx.ob(rule, "get_id_for_type: the hash formatted into the id #%d was inserted into the used-hash set" % (i + 1),
               ok, f.loc(x),
               "every path to the formatting passes the true edge of insert(hash).second after the last write to hash"
               if ok else
               "a path reaches the formatting of `hash` without a successful insert of that value into the set of used "
               "hashes (the probe picks a free value but never registers it): the next colliding type is given the "
               "same id")



def check_internalflag(ctx):
    """R-INTERNALFLAG: the hash id is the hash of the *internal* pretty representation, which is document independent
    only because every nested name is itself computed in internal mode (anonymous types then share one generic name
    instead of a per-scope number).  In every function of src/abg-ir.cc that takes a `bool internal` parameter, each
    call - reachable in the world where `internal` is true - of a function that has an `internal` parameter of its own
    passes a value that is true in that world.  A literal `false` (or an omitted argument defaulting to false) there
    splices an external, numbered name into an internal one: the id of the enclosing type then depends on how many
    anonymous types precede it in the binary."""
    from rules.world import World
    P = ctx.program(["src/abg-ir.cc"])

    def internal_param(g):
        for i, p in enumerate(g.r["params"]):
            if (g.unit.decl(p) or {}).get("n") == "internal":
                return i, p
        return None
    n = 0
    for f in sorted(P.all_funcs(), key=lambda x: (x.file, x.l0)):
        if f.dep or f.cfg() is None or not f.q.startswith("abigail::"):
            continue
        ip = internal_param(f)
        if ip is None:
            continue
        pd = ip[1]

        def atom(e, pd=pd):
            if e["k"] == "DeclRefExpr" and e.get("d") == pd:
                return [True]
            return None
        W = World(f, atom)
        seen, _ = W.blocks()
        cfg = f.cfg()
        reached = {e["i"] for b in seen for e in cfg.blocks[b].elems}
        k = {}
        for x in f.nodes():
            if x["k"] not in ("CallExpr", "CXXMemberCallExpr") or x["i"] not in reached:
                continue
            g = P.funcs.get((f.decl(x) or {}).get("u"))
            gi = internal_param(g) if g is not None else None
            if gi is None:
                continue
            args = call_args(x)
            if gi[0] >= len(args):
                continue
            ctx.analysed(f)
            n += 1
            v = W.ev(args[gi[0]])
            ok = v == frozenset([True])
            k[g.n] = k.get(g.n, 0) + 1
            from rules.null_rules import short
            ctx.ob("R-INTERNALFLAG", "%s: %s() is asked for the internal name when the internal name is being built%s" % (
                short(f), g.n, "" if k[g.n] == 1 else " #%d" % k[g.n]), ok, f.loc(x),
                "`%s`" % expr_str(f, args[gi[0]])[:40] if ok else
                "`%s` passes `%s` for `internal` on a path where this function computes an internal name: an external "
                "(numbered) anonymous name ends up inside an internal name, and the hash id of the type changes from one "
                "binary to the next" % (expr_str(f, x)[:80], expr_str(f, args[gi[0]])[:30]))
    ctx.floor("R-INTERNALFLAG", "nested name computations under internal=true", n, 50)
