// abgsa: clang-14 frontend plugin that exports a compact, type-resolved
// description of every function defined in the analysed repository:
// a statement/expression tree with resolved callees, referenced
// declarations, constant values and macro provenance, plus clang's CFG
// (block -> ordered node ids, terminator, successors).
//
// The Python rule engine (sa/engine, sa/rules) consumes these facts; no
// rule is evaluated here.
//
// Usage:
//   clang++ -fsyntax-only -fplugin=abgsa.so -Xclang -plugin -Xclang abgsa \
//     -Xclang -plugin-arg-abgsa -Xclang root=/repo \
//     -Xclang -plugin-arg-abgsa -Xclang out=/path/unit.json  <flags> file.cc

#include "clang/AST/ASTConsumer.h"
#include "clang/AST/ASTContext.h"
#include "clang/AST/DeclCXX.h"
#include "clang/AST/DeclTemplate.h"
#include "clang/AST/ExprCXX.h"
#include "clang/AST/RecursiveASTVisitor.h"
#include "clang/AST/StmtCXX.h"
#include "clang/Analysis/CFG.h"
#include "clang/Basic/SourceManager.h"
#include "clang/Frontend/CompilerInstance.h"
#include "clang/Frontend/FrontendPluginRegistry.h"
#include "clang/Index/USRGeneration.h"
#include "clang/Lex/Lexer.h"
#include "llvm/ADT/DenseMap.h"
#include "llvm/ADT/SmallString.h"
#include "llvm/Support/JSON.h"
#include "llvm/Support/raw_ostream.h"

#include <deque>
#include <map>
#include <set>
#include <string>
#include <vector>

using namespace clang;
namespace json = llvm::json;

namespace {

struct Exporter {
  ASTContext &Ctx;
  SourceManager &SM;
  std::string Root;
  PrintingPolicy PP;

  // tables
  std::vector<QualType> Types;
  llvm::DenseMap<const void *, unsigned> TypeIdx;
  std::vector<const NamedDecl *> Decls;
  llvm::DenseMap<const NamedDecl *, unsigned> DeclIdx;

  // per function
  llvm::DenseMap<const Stmt *, unsigned> StmtId;
  llvm::DenseMap<const Decl *, unsigned> VarNodeId;
  llvm::DenseMap<const CXXCtorInitializer *, unsigned> InitId;
  unsigned NextId = 0;
  std::string CurFile;

  std::deque<const FunctionDecl *> Pending; // lambdas call operators
  std::set<const FunctionDecl *> Emitted;

  Exporter(ASTContext &C, std::string R)
      : Ctx(C), SM(C.getSourceManager()), Root(std::move(R)),
        PP(C.getLangOpts()) {
    PP.SuppressTagKeyword = true;
    PP.Bool = true;
    PP.FullyQualifiedName = true;
    PP.PrintCanonicalTypes = false;
  }

  // ---------------------------------------------------------------- helpers

  std::string fileOf(SourceLocation L) {
    if (L.isInvalid())
      return "";
    SourceLocation E = SM.getExpansionLoc(L);
    PresumedLoc P = SM.getPresumedLoc(E);
    if (P.isInvalid())
      return "";
    return P.getFilename();
  }

  unsigned lineOf(SourceLocation L) {
    if (L.isInvalid())
      return 0;
    return SM.getExpansionLineNumber(L);
  }
  unsigned colOf(SourceLocation L) {
    if (L.isInvalid())
      return 0;
    return SM.getExpansionColumnNumber(L);
  }

  bool inRepo(SourceLocation L) {
    std::string F = fileOf(L);
    if (F.empty())
      return false;
    if (F[0] != '/')
      return true; // relative => the main file dir
    return F.compare(0, Root.size(), Root) == 0;
  }

  std::string macroOf(SourceLocation Loc) {
    std::string Name;
    unsigned guard = 0;
    while (Loc.isMacroID() && guard++ < 64) {
      if (SM.isMacroArgExpansion(Loc)) {
        Loc = SM.getImmediateExpansionRange(Loc).getBegin();
      } else {
        Name = Lexer::getImmediateMacroName(Loc, SM, Ctx.getLangOpts()).str();
        Loc = SM.getImmediateExpansionRange(Loc).getBegin();
      }
    }
    return Name;
  }

  unsigned typeIndex(QualType T) {
    if (T.isNull())
      return 0;
    const void *K = T.getAsOpaquePtr();
    auto It = TypeIdx.find(K);
    if (It != TypeIdx.end())
      return It->second;
    Types.push_back(T);
    unsigned I = Types.size(); // 1-based; 0 = none
    TypeIdx[K] = I;
    return I;
  }

  unsigned declIndex(const NamedDecl *D) {
    if (!D)
      return 0;
    auto It = DeclIdx.find(D);
    if (It != DeclIdx.end())
      return It->second;
    Decls.push_back(D);
    unsigned I = Decls.size(); // 1-based
    DeclIdx[D] = I;
    return I;
  }

  std::string qname(const NamedDecl *D) {
    std::string S;
    llvm::raw_string_ostream OS(S);
    D->printQualifiedName(OS, PP);
    return OS.str();
  }

  std::string usr(const Decl *D) {
    llvm::SmallString<256> Buf;
    if (index::generateUSRForDecl(D, Buf))
      return "";
    return std::string(Buf.str());
  }

  std::string typeStr(QualType T) { return T.getAsString(PP); }

  std::string signature(const FunctionDecl *FD) {
    std::string S = qname(FD);
    S += "(";
    bool first = true;
    for (const ParmVarDecl *P : FD->parameters()) {
      if (!first)
        S += ", ";
      first = false;
      S += typeStr(P->getType());
    }
    if (FD->isVariadic())
      S += first ? "..." : ", ...";
    S += ")";
    if (auto *M = dyn_cast<CXXMethodDecl>(FD))
      if (M->isConst())
        S += " const";
    return S;
  }

  // ---------------------------------------------------------------- tree

  static const Stmt *strip(const Stmt *S, bool &RV) {
    // skip wrappers that carry no information for the rules
    while (S) {
      if (auto *ICE = dyn_cast<ImplicitCastExpr>(S)) {
        if (ICE->getCastKind() == CK_LValueToRValue)
          RV = true;
        S = ICE->getSubExpr();
      } else if (auto *EWC = dyn_cast<ExprWithCleanups>(S))
        S = EWC->getSubExpr();
      else if (auto *MTE = dyn_cast<MaterializeTemporaryExpr>(S))
        S = MTE->getSubExpr();
      else if (auto *BTE = dyn_cast<CXXBindTemporaryExpr>(S))
        S = BTE->getSubExpr();
      else if (auto *PE = dyn_cast<ParenExpr>(S))
        S = PE->getSubExpr();
      else if (auto *CE = dyn_cast<ConstantExpr>(S))
        S = CE->getSubExpr();
      else
        break;
    }
    return S;
  }

  void registerWrappers(const Stmt *Outer, const Stmt *Inner, unsigned Id) {
    const Stmt *S = Outer;
    while (S && S != Inner) {
      StmtId[S] = Id;
      if (auto *ICE = dyn_cast<ImplicitCastExpr>(S))
        S = ICE->getSubExpr();
      else if (auto *EWC = dyn_cast<ExprWithCleanups>(S))
        S = EWC->getSubExpr();
      else if (auto *MTE = dyn_cast<MaterializeTemporaryExpr>(S))
        S = MTE->getSubExpr();
      else if (auto *BTE = dyn_cast<CXXBindTemporaryExpr>(S))
        S = BTE->getSubExpr();
      else if (auto *PE = dyn_cast<ParenExpr>(S))
        S = PE->getSubExpr();
      else if (auto *CE = dyn_cast<ConstantExpr>(S))
        S = CE->getSubExpr();
      else
        break;
    }
  }

  void emitChild(json::OStream &J, const Stmt *S, const std::string &ParentMacro) {
    if (!S) {
      J.value(nullptr);
      return;
    }
    emitStmt(J, S, ParentMacro);
  }

  void emitVarDeclNode(json::OStream &J, const VarDecl *VD,
                       const std::string &ParentMacro) {
    J.object([&] {
      unsigned Id = NextId++;
      VarNodeId[VD] = Id;
      J.attribute("k", "VarDecl");
      J.attribute("i", Id);
      J.attribute("l", lineOf(VD->getLocation()));
      J.attribute("d", declIndex(VD));
      J.attribute("t", typeIndex(VD->getType()));
      J.attributeArray("c", [&] {
        if (VD->hasInit())
          emitChild(J, VD->getInit(), ParentMacro);
      });
    });
  }

  void emitStmt(json::OStream &J, const Stmt *Outer,
                const std::string &ParentMacro) {
    bool RV = false;
    const Stmt *S = strip(Outer, RV);
    if (!S) {
      J.value(nullptr);
      return;
    }
    unsigned Id = NextId++;
    StmtId[S] = Id;
    if (S != Outer)
      registerWrappers(Outer, S, Id);

    J.object([&] {
      J.attribute("k", S->getStmtClassName());
      J.attribute("i", Id);
      SourceLocation B = S->getBeginLoc();
      J.attribute("l", lineOf(B));
      std::string F = fileOf(B);
      if (!F.empty() && F != CurFile)
        J.attribute("f", F);
      std::string Macro = B.isMacroID() ? macroOf(B) : std::string();
      if (Macro != ParentMacro)
        J.attribute("m", Macro);
      if (RV)
        J.attribute("rv", 1);

      const Expr *E = dyn_cast<Expr>(S);
      if (E) {
        J.attribute("t", typeIndex(E->getType()));
      }

      // ---- kind specific attributes
      if (auto *DRE = dyn_cast<DeclRefExpr>(S)) {
        J.attribute("d", declIndex(DRE->getDecl()));
      } else if (auto *ME = dyn_cast<MemberExpr>(S)) {
        J.attribute("d", declIndex(ME->getMemberDecl()));
        if (ME->isArrow())
          J.attribute("arrow", 1);
      } else if (auto *CE = dyn_cast<CallExpr>(S)) {
        J.attribute("col", colOf(B));
        if (const FunctionDecl *FD = CE->getDirectCallee())
          J.attribute("d", declIndex(FD));
        if (auto *OC = dyn_cast<CXXOperatorCallExpr>(S))
          J.attribute("op", getOperatorSpelling(OC->getOperator()));
        if (auto *MC = dyn_cast<CXXMemberCallExpr>(S)) {
          if (const CXXMethodDecl *MD = MC->getMethodDecl())
            if (MD->isVirtual()) {
              // a qualified call  X::f()  is not dispatched virtually
              bool Qualified = false;
              if (auto *CalleeME =
                      dyn_cast<MemberExpr>(MC->getCallee()->IgnoreParens()))
                Qualified = CalleeME->hasQualifier();
              if (!Qualified)
                J.attribute("virt", 1);
            }
        }
      } else if (auto *CCE = dyn_cast<CXXConstructExpr>(S)) {
        J.attribute("col", colOf(B));
        J.attribute("d", declIndex(CCE->getConstructor()));
        if (CCE->isElidable())
          J.attribute("elide", 1);
      } else if (auto *BO = dyn_cast<BinaryOperator>(S)) {
        J.attribute("op", BO->getOpcodeStr());
      } else if (auto *UO = dyn_cast<UnaryOperator>(S)) {
        J.attribute("op", UnaryOperator::getOpcodeStr(UO->getOpcode()));
        if (UO->isPostfix())
          J.attribute("post", 1);
      } else if (auto *IL = dyn_cast<IntegerLiteral>(S)) {
        J.attribute("v", (int64_t)IL->getValue().getLimitedValue());
      } else if (auto *CL = dyn_cast<CharacterLiteral>(S)) {
        J.attribute("v", (int64_t)CL->getValue());
      } else if (auto *BL = dyn_cast<CXXBoolLiteralExpr>(S)) {
        J.attribute("v", BL->getValue() ? 1 : 0);
      } else if (auto *DA = dyn_cast<CXXDefaultArgExpr>(S)) {
        // literal value of a defaulted argument (the expression itself belongs to the callee's declaration)
        if (const Expr *DE = DA->getExpr()) {
          DE = DE->IgnoreParenImpCasts();
          if (auto *DB = dyn_cast<CXXBoolLiteralExpr>(DE))
            J.attribute("v", DB->getValue() ? 1 : 0);
          else if (auto *DI = dyn_cast<IntegerLiteral>(DE))
            J.attribute("v", (int64_t)DI->getValue().getLimitedValue());
        }
      } else if (auto *SL = dyn_cast<StringLiteral>(S)) {
        if (SL->getCharByteWidth() == 1)
          J.attribute("s", SL->getBytes());
      } else if (auto *EC = dyn_cast<ExplicitCastExpr>(S)) {
        J.attribute("to", typeIndex(EC->getTypeAsWritten()));
        J.attribute("ck", EC->getCastKindName());
      } else if (auto *NE = dyn_cast<CXXNewExpr>(S)) {
        J.attribute("to", typeIndex(NE->getAllocatedType()));
      } else if (auto *LE = dyn_cast<LambdaExpr>(S)) {
        if (const CXXMethodDecl *Op = LE->getCallOperator()) {
          J.attribute("d", declIndex(Op));
          Pending.push_back(Op);
        }
      } else if (auto *CS = dyn_cast<CaseStmt>(S)) {
        Expr::EvalResult R;
        if (CS->getLHS() && !CS->getLHS()->isValueDependent() &&
            CS->getLHS()->EvaluateAsInt(R, Ctx))
          J.attribute("v", (int64_t)R.Val.getInt().getExtValue());
      } else if (auto *UL = dyn_cast<UnresolvedLookupExpr>(S)) {
        J.attribute("n", UL->getName().getAsString());
        if (UL->hasExplicitTemplateArgs()) {
          J.attributeArray("ta", [&] {
            for (const TemplateArgumentLoc &A : UL->template_arguments()) {
              std::string T;
              llvm::raw_string_ostream OS(T);
              A.getArgument().print(Ctx.getPrintingPolicy(), OS, true);
              J.value(OS.str());
            }
          });
        }
      } else if (auto *DM = dyn_cast<CXXDependentScopeMemberExpr>(S)) {
        J.attribute("n", DM->getMember().getAsString());
      } else if (auto *UM = dyn_cast<UnresolvedMemberExpr>(S)) {
        J.attribute("n", UM->getMemberName().getAsString());
      } else if (auto *DD = dyn_cast<DependentScopeDeclRefExpr>(S)) {
        J.attribute("n", DD->getDeclName().getAsString());
      } else if (auto *GS = dyn_cast<GotoStmt>(S)) {
        J.attribute("n", GS->getLabel()->getName());
      } else if (auto *LS = dyn_cast<LabelStmt>(S)) {
        J.attribute("n", LS->getName());
      } else if (auto *UE = dyn_cast<UnaryExprOrTypeTraitExpr>(S)) {
        Expr::EvalResult R;
        if (!UE->isValueDependent() && UE->EvaluateAsInt(R, Ctx))
          J.attribute("v", (int64_t)R.Val.getInt().getExtValue());
      }

      // constant value of enum-typed / integral non-literal expressions
      if (E && !isa<IntegerLiteral>(E) && !isa<CXXBoolLiteralExpr>(E) &&
          !isa<CharacterLiteral>(E) && !E->isValueDependent() &&
          !E->isTypeDependent() &&
          (isa<DeclRefExpr>(E) || isa<BinaryOperator>(E) ||
           isa<UnaryOperator>(E) || isa<ExplicitCastExpr>(E))) {
        QualType T = E->getType();
        if (!T.isNull() && T->isIntegralOrEnumerationType()) {
          bool IsEnumConst = false;
          if (auto *DRE = dyn_cast<DeclRefExpr>(E))
            IsEnumConst = isa<EnumConstantDecl>(DRE->getDecl());
          if (IsEnumConst || !isa<DeclRefExpr>(E)) {
            Expr::EvalResult R;
            if (E->EvaluateAsInt(R, Ctx, Expr::SE_NoSideEffects))
              J.attribute("v", (int64_t)R.Val.getInt().getExtValue());
          }
        }
      }

      // ---- children
      if (auto *IS = dyn_cast<IfStmt>(S)) {
        if (IS->getInit()) {
          J.attributeBegin("init");
          emitChild(J, IS->getInit(), Macro);
          J.attributeEnd();
        }
        if (const VarDecl *CV = IS->getConditionVariable()) {
          J.attributeBegin("var");
          emitVarDeclNode(J, CV, Macro);
          J.attributeEnd();
        }
        J.attributeArray("c", [&] {
          emitChild(J, IS->getCond(), Macro);
          emitChild(J, IS->getThen(), Macro);
          emitChild(J, IS->getElse(), Macro);
        });
      } else if (auto *WS = dyn_cast<WhileStmt>(S)) {
        if (const VarDecl *CV = WS->getConditionVariable()) {
          J.attributeBegin("var");
          emitVarDeclNode(J, CV, Macro);
          J.attributeEnd();
        }
        J.attributeArray("c", [&] {
          emitChild(J, WS->getCond(), Macro);
          emitChild(J, WS->getBody(), Macro);
        });
      } else if (auto *FS = dyn_cast<ForStmt>(S)) {
        if (const VarDecl *CV = FS->getConditionVariable()) {
          J.attributeBegin("var");
          emitVarDeclNode(J, CV, Macro);
          J.attributeEnd();
        }
        J.attributeArray("c", [&] {
          emitChild(J, FS->getInit(), Macro);
          emitChild(J, FS->getCond(), Macro);
          emitChild(J, FS->getInc(), Macro);
          emitChild(J, FS->getBody(), Macro);
        });
      } else if (auto *DS = dyn_cast<DoStmt>(S)) {
        J.attributeArray("c", [&] {
          emitChild(J, DS->getBody(), Macro);
          emitChild(J, DS->getCond(), Macro);
        });
      } else if (auto *RS = dyn_cast<CXXForRangeStmt>(S)) {
        if (const VarDecl *LV = RS->getLoopVariable())
          J.attribute("d", declIndex(LV));
        J.attributeArray("c", [&] {
          emitChild(J, RS->getRangeInit(), Macro);
          emitChild(J, RS->getBody(), Macro);
        });
      } else if (auto *SS = dyn_cast<SwitchStmt>(S)) {
        J.attributeArray("c", [&] {
          emitChild(J, SS->getCond(), Macro);
          emitChild(J, SS->getBody(), Macro);
        });
      } else if (auto *CS = dyn_cast<CaseStmt>(S)) {
        J.attributeArray("c", [&] {
          emitChild(J, CS->getLHS(), Macro);
          emitChild(J, CS->getSubStmt(), Macro);
        });
      } else if (auto *DS2 = dyn_cast<DeclStmt>(S)) {
        J.attributeArray("c", [&] {
          for (const Decl *D : DS2->decls())
            if (auto *VD = dyn_cast<VarDecl>(D))
              emitVarDeclNode(J, VD, Macro);
        });
      } else if (isa<LambdaExpr>(S) || isa<CXXDefaultArgExpr>(S) ||
                 isa<CXXDefaultInitExpr>(S) || isa<OpaqueValueExpr>(S)) {
        J.attributeArray("c", [&] {});
      } else if (auto *CT = dyn_cast<CXXCatchStmt>(S)) {
        J.attributeArray("c", [&] { emitChild(J, CT->getHandlerBlock(), Macro); });
      } else {
        J.attributeArray("c", [&] {
          for (const Stmt *C : S->children())
            emitChild(J, C, Macro);
        });
      }
    });
  }

  // ---------------------------------------------------------------- CFG

  bool lookupId(const Stmt *S, unsigned &Id) {
    if (!S)
      return false;
    auto It = StmtId.find(S);
    if (It != StmtId.end()) {
      Id = It->second;
      return true;
    }
    if (auto *DS = dyn_cast<DeclStmt>(S)) {
      if (DS->isSingleDecl()) {
        auto V = VarNodeId.find(DS->getSingleDecl());
        if (V != VarNodeId.end()) {
          Id = V->second;
          return true;
        }
      }
    }
    return false;
  }

  void emitCFG(json::OStream &J, const FunctionDecl *FD) {
    CFG::BuildOptions BO;
    BO.setAllAlwaysAdd();
    BO.AddImplicitDtors = false;
    BO.AddTemporaryDtors = false;
    BO.AddInitializers = true;
    BO.AddEHEdges = false;
    BO.PruneTriviallyFalseEdges = false;
    std::unique_ptr<CFG> G =
        CFG::buildCFG(FD, FD->getBody(), &Ctx, BO);
    if (!G) {
      J.attribute("cfg", nullptr);
      return;
    }
    J.attributeObject("cfg", [&] {
      J.attribute("entry", G->getEntry().getBlockID());
      J.attribute("exit", G->getExit().getBlockID());
      J.attributeArray("b", [&] {
        for (const CFGBlock *B : *G) {
          J.object([&] {
            J.attribute("id", B->getBlockID());
            J.attributeArray("e", [&] {
              unsigned Last = ~0u;
              for (const CFGElement &El : *B) {
                unsigned Id;
                if (auto CS = El.getAs<CFGStmt>()) {
                  if (lookupId(CS->getStmt(), Id) && Id != Last) {
                    J.value(Id);
                    Last = Id;
                  }
                } else if (auto CI = El.getAs<CFGInitializer>()) {
                  auto It = InitId.find(CI->getInitializer());
                  if (It != InitId.end()) {
                    J.value(It->second);
                    Last = It->second;
                  }
                }
              }
            });
            unsigned Id;
            if (const Stmt *T = B->getTerminatorStmt()) {
              if (lookupId(T, Id))
                J.attribute("t", Id);
              else
                J.attribute("tk", T->getStmtClassName());
            }
            if (const Stmt *TC = B->getTerminatorCondition(false)) {
              if (lookupId(TC, Id))
                J.attribute("tc", Id);
            }
            if (const Stmt *L = B->getLabel()) {
              if (lookupId(L, Id))
                J.attribute("lbl", Id);
            }
            if (B->hasNoReturnElement())
              J.attribute("noret", 1);
            J.attributeArray("s", [&] {
              for (auto SI = B->succ_begin(); SI != B->succ_end(); ++SI) {
                if (const CFGBlock *SB = SI->getReachableBlock())
                  J.value(SB->getBlockID());
                else if (const CFGBlock *UB = SI->getPossiblyUnreachableBlock())
                  J.value(UB->getBlockID());
                else
                  J.value(nullptr);
              }
            });
          });
        }
      });
    });
  }

  // ---------------------------------------------------------------- function

  void emitFunction(json::OStream &J, const FunctionDecl *FD) {
    if (!Emitted.insert(FD).second)
      return;
    const Stmt *Body = FD->getBody();
    if (!Body)
      return;
    StmtId.clear();
    VarNodeId.clear();
    InitId.clear();
    NextId = 0;
    CurFile = fileOf(FD->getLocation());

    J.object([&] {
      J.attribute("q", qname(FD));
      J.attribute("n", FD->getNameAsString());
      J.attribute("sig", signature(FD));
      J.attribute("u", usr(FD));
      J.attribute("d", declIndex(FD));
      J.attribute("file", CurFile);
      J.attribute("l0", lineOf(FD->getBeginLoc()));
      J.attribute("l1", lineOf(FD->getEndLoc()));
      J.attribute("ret", typeIndex(FD->getReturnType()));
      bool Dependent = FD->isDependentContext();
      if (Dependent)
        J.attribute("dep", 1);
      if (FD->isTemplateInstantiation())
        J.attribute("inst", 1);
      if (FD->getStorageClass() == SC_Static)
        J.attribute("static", 1);
      if (auto *MD = dyn_cast<CXXMethodDecl>(FD)) {
        if (const CXXRecordDecl *P = MD->getParent()) {
          J.attribute("cls", qname(P));
          if (P->isLambda())
            J.attribute("lambda", 1);
        }
        if (MD->isVirtual())
          J.attribute("virt", 1);
        if (MD->isConst())
          J.attribute("const", 1);
        if (MD->isStatic())
          J.attribute("smeth", 1);
      }
      J.attributeArray("params", [&] {
        for (const ParmVarDecl *P : FD->parameters())
          J.value(declIndex(P));
      });
      if (const FunctionTemplateDecl *FT = FD->getDescribedFunctionTemplate()) {
        J.attributeArray("tp", [&] {
          for (const NamedDecl *TP : *FT->getTemplateParameters())
            J.value(TP->getNameAsString());
        });
      }
      J.attributeBegin("body");
      J.object([&] {
        unsigned Id = NextId++;
        J.attribute("k", "FunctionBody");
        J.attribute("i", Id);
        J.attribute("l", lineOf(FD->getBeginLoc()));
        J.attributeArray("c", [&] {
          if (auto *CD = dyn_cast<CXXConstructorDecl>(FD)) {
            for (const CXXCtorInitializer *I : CD->inits()) {
              if (!I->isWritten() && !I->isAnyMemberInitializer())
                continue;
              J.object([&] {
                unsigned IId = NextId++;
                InitId[I] = IId;
                J.attribute("k", "CtorInit");
                J.attribute("i", IId);
                J.attribute("l", lineOf(I->getSourceLocation()));
                if (I->isAnyMemberInitializer())
                  J.attribute("d", declIndex(I->getAnyMember()));
                else if (I->isBaseInitializer())
                  J.attribute("t", typeIndex(QualType(I->getBaseClass(), 0)));
                if (I->isWritten())
                  J.attribute("written", 1);
                J.attributeArray("c", [&] { emitChild(J, I->getInit(), ""); });
              });
            }
          }
          emitChild(J, Body, "");
        });
      });
      J.attributeEnd();
      if (!Dependent)
        emitCFG(J, FD);
    });
  }

  // ---------------------------------------------------------------- tables

  void emitDeclTable(json::OStream &J) {
    // Decls may grow while we emit (types referencing...), iterate by index
    J.attributeArray("decls", [&] {
      for (size_t I = 0; I < Decls.size(); ++I) {
        const NamedDecl *D = Decls[I];
        J.object([&] {
          J.attribute("k", D->getDeclKindName());
          J.attribute("n", D->getNameAsString());
          J.attribute("q", qname(D));
          bool Repo = inRepo(D->getLocation());
          if (Repo) {
            J.attribute("repo", 1);
            J.attribute("file", fileOf(D->getLocation()));
            J.attribute("l", lineOf(D->getLocation()));
          }
          if (auto *FD = dyn_cast<FunctionDecl>(D)) {
            J.attribute("sig", signature(FD));
            J.attribute("u", usr(FD));
            J.attribute("ret", typeIndex(FD->getReturnType()));
            if (FD->isNoReturn())
              J.attribute("noret", 1);
            if (auto *MD = dyn_cast<CXXMethodDecl>(FD)) {
              if (MD->getParent())
                J.attribute("cls", qname(MD->getParent()));
              if (MD->isVirtual())
                J.attribute("virt", 1);
              if (MD->isConst())
                J.attribute("const", 1);
              if (MD->isStatic())
                J.attribute("smeth", 1);
            }
            if (FD->getPrimaryTemplate() || FD->getMemberSpecializationInfo())
              J.attribute("inst", 1);
            J.attributeArray("pt", [&] {
              for (const ParmVarDecl *P : FD->parameters())
                J.value(typeIndex(P->getType()));
            });
          } else if (auto *VD = dyn_cast<VarDecl>(D)) {
            J.attribute("t", typeIndex(VD->getType()));
            const char *St = "local";
            if (isa<ParmVarDecl>(VD))
              St = "param";
            else if (VD->isStaticLocal())
              St = "static_local";
            else if (VD->isStaticDataMember())
              St = "static_member";
            else if (VD->hasGlobalStorage())
              St = "global";
            J.attribute("st", St);
            if (VD->getType().isConstQualified())
              J.attribute("const", 1);
            if (VD->getTLSKind() != VarDecl::TLS_None)
              J.attribute("tls", 1);
            if (VD->hasGlobalStorage())
              J.attribute("u", usr(VD));
            J.attribute("id", (int64_t)(I + 1));
          } else if (auto *FLD = dyn_cast<FieldDecl>(D)) {
            J.attribute("t", typeIndex(FLD->getType()));
            if (FLD->getParent())
              J.attribute("cls", qname(FLD->getParent()));
            if (FLD->isMutable())
              J.attribute("mutable", 1);
          } else if (auto *EC = dyn_cast<EnumConstantDecl>(D)) {
            J.attribute("v", (int64_t)EC->getInitVal().getExtValue());
            if (auto *ED = dyn_cast<EnumDecl>(EC->getDeclContext()))
              J.attribute("enum", qname(ED));
          }
        });
      }
    });
  }

  void emitTypeTable(json::OStream &J) {
    J.attributeArray("types", [&] {
      for (size_t I = 0; I < Types.size(); ++I) {
        QualType T = Types[I];
        J.object([&] {
          J.attribute("s", typeStr(T));
          QualType C = T.getCanonicalType();
          std::string CS = typeStr(C);
          J.attribute("c", CS);
          QualType NR = C.getNonReferenceType();
          if (NR->isPointerType())
            J.attribute("ptr", 1);
          if (C->isReferenceType())
            J.attribute("ref", 1);
          if (NR.isConstQualified())
            J.attribute("const", 1);
          if (NR->isEnumeralType())
            J.attribute("enum", 1);
          if (NR->isIntegralOrEnumerationType() || NR->isFloatingType())
            J.attribute("arith", 1);
          if (const CXXRecordDecl *RD = NR->getAsCXXRecordDecl())
            J.attribute("rec", qname(RD));
        });
      }
    });
  }
};

// ------------------------------------------------------------------ visitor

class Finder : public RecursiveASTVisitor<Finder> {
public:
  Exporter &X;
  std::vector<const FunctionDecl *> Funcs;
  std::vector<const CXXRecordDecl *> Records;
  std::vector<const EnumDecl *> Enums;
  std::vector<const VarDecl *> Globals;

  explicit Finder(Exporter &E) : X(E) {}
  bool shouldVisitTemplateInstantiations() const { return true; }
  bool shouldVisitImplicitCode() const { return false; }

  bool VisitFunctionDecl(FunctionDecl *FD) {
    if (!FD->doesThisDeclarationHaveABody())
      return true;
    if (FD->isImplicit() || FD->isDefaulted() || FD->isDeleted())
      return true;
    if (!X.inRepo(FD->getLocation()))
      return true;
    Funcs.push_back(FD);
    return true;
  }
  bool VisitCXXRecordDecl(CXXRecordDecl *RD) {
    if (!RD->isThisDeclarationADefinition())
      return true;
    if (!X.inRepo(RD->getLocation()))
      return true;
    if (RD->isLambda())
      return true;
    Records.push_back(RD);
    return true;
  }
  bool VisitEnumDecl(EnumDecl *ED) {
    if (ED->isThisDeclarationADefinition() && X.inRepo(ED->getLocation()))
      Enums.push_back(ED);
    return true;
  }
  bool VisitVarDecl(VarDecl *VD) {
    if (isa<ParmVarDecl>(VD))
      return true;
    if (!VD->hasGlobalStorage())
      return true;
    if (!X.inRepo(VD->getLocation()))
      return true;
    Globals.push_back(VD);
    return true;
  }
};

class Consumer : public ASTConsumer {
  std::string Root, Out;

public:
  Consumer(std::string R, std::string O) : Root(std::move(R)), Out(std::move(O)) {}

  void HandleTranslationUnit(ASTContext &Ctx) override {
    if (Ctx.getDiagnostics().hasErrorOccurred())
      return;
    Exporter X(Ctx, Root);
    Finder F(X);
    F.TraverseDecl(Ctx.getTranslationUnitDecl());

    std::error_code EC;
    llvm::raw_fd_ostream OS(Out, EC);
    if (EC) {
      llvm::errs() << "abgsa: cannot open " << Out << ": " << EC.message() << "\n";
      return;
    }
    json::OStream J(OS);
    J.object([&] {
      SourceManager &SM = Ctx.getSourceManager();
      if (const FileEntry *FE = SM.getFileEntryForID(SM.getMainFileID()))
        J.attribute("unit", FE->getName());
      J.attribute("root", Root);

      J.attributeArray("functions", [&] {
        for (const FunctionDecl *FD : F.Funcs)
          X.emitFunction(J, FD);
        while (!X.Pending.empty()) {
          const FunctionDecl *FD = X.Pending.front();
          X.Pending.pop_front();
          X.emitFunction(J, FD);
        }
      });

      J.attributeArray("records", [&] {
        for (const CXXRecordDecl *RD : F.Records) {
          J.object([&] {
            J.attribute("q", X.qname(RD));
            J.attribute("file", X.fileOf(RD->getLocation()));
            J.attribute("l", X.lineOf(RD->getLocation()));
            if (isa<ClassTemplateSpecializationDecl>(RD))
              J.attribute("inst", 1);
            if (RD->getDescribedClassTemplate())
              J.attribute("tmpl", 1);
            J.attributeArray("bases", [&] {
              if (!RD->isDependentContext())
                for (const CXXBaseSpecifier &B : RD->bases())
                  if (const CXXRecordDecl *BD = B.getType()->getAsCXXRecordDecl())
                    J.value(X.qname(BD));
            });
            J.attributeArray("fields", [&] {
              for (const FieldDecl *FD : RD->fields())
                J.object([&] {
                  J.attribute("n", FD->getNameAsString());
                  J.attribute("t", X.typeIndex(FD->getType()));
                  if (FD->isMutable())
                    J.attribute("mutable", 1);
                });
            });
            J.attributeArray("methods", [&] {
              for (const CXXMethodDecl *MD : RD->methods()) {
                if (MD->isImplicit())
                  continue;
                J.object([&] {
                  J.attribute("n", MD->getNameAsString());
                  J.attribute("sig", X.signature(MD));
                  J.attribute("u", X.usr(MD));
                  J.attribute("access", (int)MD->getAccess());
                  if (MD->isVirtual())
                    J.attribute("virt", 1);
                  if (MD->isPure())
                    J.attribute("pure", 1);
                  J.attributeArray("ovr", [&] {
                    for (const CXXMethodDecl *O : MD->overridden_methods())
                      J.value(X.usr(O));
                  });
                });
              }
            });
            J.attributeArray("friends", [&] {
              for (const FriendDecl *FR : RD->friends()) {
                if (const NamedDecl *ND = FR->getFriendDecl())
                  J.value(X.qname(ND));
                else if (TypeSourceInfo *TSI = FR->getFriendType())
                  J.value(X.typeStr(TSI->getType()));
              }
            });
          });
        }
      });

      J.attributeArray("enums", [&] {
        for (const EnumDecl *ED : F.Enums) {
          J.object([&] {
            J.attribute("q", X.qname(ED));
            J.attributeArray("consts", [&] {
              for (const EnumConstantDecl *EC : ED->enumerators())
                J.object([&] {
                  J.attribute("n", EC->getNameAsString());
                  J.attribute("v", (int64_t)EC->getInitVal().getExtValue());
                });
            });
          });
        }
      });

      J.attributeArray("globals", [&] {
        for (const VarDecl *VD : F.Globals) {
          J.object([&] {
            J.attribute("q", X.qname(VD));
            J.attribute("d", X.declIndex(VD));
            J.attribute("file", X.fileOf(VD->getLocation()));
            J.attribute("l", X.lineOf(VD->getLocation()));
            if (VD->isStaticLocal())
              if (auto *FD = dyn_cast<FunctionDecl>(VD->getDeclContext()))
                J.attribute("in", X.usr(FD));
          });
        }
      });

      X.emitDeclTable(J);
      X.emitTypeTable(J);
    });
    OS << "\n";
  }
};

class Action : public PluginASTAction {
  std::string Root = "/repo", Out = "abgsa.json";

protected:
  std::unique_ptr<ASTConsumer> CreateASTConsumer(CompilerInstance &,
                                                 llvm::StringRef) override {
    return std::make_unique<Consumer>(Root, Out);
  }
  bool ParseArgs(const CompilerInstance &,
                 const std::vector<std::string> &Args) override {
    for (const std::string &A : Args) {
      if (A.compare(0, 5, "root=") == 0)
        Root = A.substr(5);
      else if (A.compare(0, 4, "out=") == 0)
        Out = A.substr(4);
    }
    return true;
  }
  ActionType getActionType() override { return ReplaceAction; }
};

} // namespace

static FrontendPluginRegistry::Add<Action> X("abgsa", "export analysis facts");
